// Capacities of the model host are compile-time parameters taken from the environment
// (set per harness group by /verif/bin/check).  Every capacity overflow is a `MODEL:` assertion.
use std::{env, fs, path::Path};
fn main() {
    let caps: [(&str, usize); 10] = [
        ("BCAP", 64),  // big byte buffers: Bytes, Val payloads, hash inputs
        ("SCAP", 4),   // String capacity
        ("VCAP", 2),   // Vec<T> capacity
        ("NSLOT", 6),  // storage slots
        ("KW", 24),    // storage key width (bytes)
        ("VW", 40),    // storage value width (bytes)
        ("HCAP", 4),   // hash memo entries
        ("ECAP", 3),   // event log entries
        ("OCAP", 3),   // signature-oracle log entries
        ("LONGB", 0),  // 1: abstract "long" byte strings (length up to u32::MAX, opaque content) are enabled
    ];
    let mut s = String::new();
    for (n, d) in caps {
        let k = format!("VERIF_{}", n);
        println!("cargo:rerun-if-env-changed={}", k);
        let v = env::var(&k).ok().and_then(|x| x.parse::<usize>().ok()).unwrap_or(d);
        s.push_str(&format!("pub const {}: usize = {};\n", n, v));
        if n == "VCAP" {
            // literal array constructor: [e, e, ..] VCAP times (avoids MaybeUninit-based array init)
            let items: Vec<&str> = (0..v).map(|_| "$e").collect();
            s.push_str(&format!("macro_rules! mk_arr {{ ($e:expr) => {{ [{}] }}; }}\n", items.join(", ")));
        }
    }
    let out = env::var("OUT_DIR").unwrap();
    fs::write(Path::new(&out).join("caps.rs"), s).unwrap();
}
