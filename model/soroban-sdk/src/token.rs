//! Token interfaces and clients.  Client methods forward to the `xc_*` hooks below (see the
//! `contractclient` macro); harnesses stub them with the token specification.
use crate::{contractclient, Address, Env, String};

pub use TokenClient as Client;
pub use TokenInterface as Interface;

#[contractclient(crate_path = "crate", name = "TokenClient")]
pub trait TokenInterface {
    fn allowance(env: Env, from: Address, spender: Address) -> i128;
    fn approve(env: Env, from: Address, spender: Address, amount: i128, expiration_ledger: u32);
    fn balance(env: Env, id: Address) -> i128;
    fn transfer(env: Env, from: Address, to: Address, amount: i128);
    fn transfer_from(env: Env, spender: Address, from: Address, to: Address, amount: i128);
    fn burn(env: Env, from: Address, amount: i128);
    fn burn_from(env: Env, spender: Address, from: Address, amount: i128);
    fn decimals(env: Env) -> u32;
    fn name(env: Env) -> String;
    fn symbol(env: Env) -> String;
}

#[contractclient(crate_path = "crate", name = "StellarAssetClient")]
pub trait StellarAssetInterface {
    fn set_admin(env: Env, new_admin: Address);
    fn admin(env: Env) -> Address;
    fn set_authorized(env: Env, id: Address, authorize: bool);
    fn authorized(env: Env, id: Address) -> bool;
    fn mint(env: Env, to: Address, amount: i128);
    fn clawback(env: Env, from: Address, amount: i128);
}
