//! Inline fixed-capacity byte buffer and the type-directed serialisation ("model XDR").
use crate::BCAP;

/// Invariant: bytes at positions >= len are zero.
#[derive(Clone, Copy, Debug)]
pub struct Buf {
    pub len: usize,
    pub d: [u8; BCAP],
}
impl Buf {
    pub const fn new() -> Self {
        Buf { len: 0, d: [0; BCAP] }
    }
    pub fn from_slice(s: &[u8]) -> Self {
        let mut b = Buf::new();
        b.extend(s);
        b
    }
    #[inline]
    pub fn push(&mut self, x: u8) {
        if self.len >= BCAP {
            crate::mfail!("MODEL:buffer capacity");
        }
        self.d[self.len] = x;
        self.len += 1;
    }
    /// Appends a slice.  Indices are `base + i` with `base` read once, so that they stay
    /// constants for CBMC whenever the current length is a constant.
    pub fn extend(&mut self, s: &[u8]) {
        let base = self.len;
        if base + s.len() > BCAP {
            crate::mfail!("MODEL:buffer capacity");
        }
        let mut i = 0;
        while i < s.len() {
            self.d[base + i] = s[i];
            i += 1;
        }
        self.len = base + s.len();
    }
    /// appends the live part of `s` (constant-bound loop, indices `base + i`)
    pub fn extend_buf(&mut self, s: &Buf) {
        let base = self.len;
        if base + s.len > BCAP {
            crate::mfail!("MODEL:buffer capacity");
        }
        // the bound is the data length: a constant length stops the unwinder early
        let mut i = 0;
        while i < s.len && i < BCAP {
            if base + i < BCAP {
                self.d[base + i] = s.d[i];
            }
            i += 1;
        }
        self.len = base + s.len;
    }
    /// appends exactly `w` bytes of `s.d` (fixed width: the length of the result does not depend on `s.len`)
    pub fn extend_fixed(&mut self, s: &Buf, w: usize) {
        let base = self.len;
        if base + w > BCAP || w > BCAP {
            crate::mfail!("MODEL:buffer capacity");
        }
        let mut i = 0;
        while i < w {
            self.d[base + i] = s.d[i];
            i += 1;
        }
        self.len = base + w;
    }
    pub fn eq(&self, o: &Buf) -> bool {
        // bytes beyond len are zero (invariant), so comparing the live part suffices
        if self.len != o.len {
            return false;
        }
        let mut same = true;
        let mut i = 0;
        while i < self.len && i < BCAP {
            if self.d[i] != o.d[i] {
                same = false;
            }
            i += 1;
        }
        same
    }
}
impl PartialEq for Buf {
    fn eq(&self, o: &Buf) -> bool {
        Buf::eq(self, o)
    }
}
impl Eq for Buf {}

pub struct Rd<'a> {
    pub b: &'a Buf,
    pub pos: usize,
}
impl<'a> Rd<'a> {
    pub fn new(b: &'a Buf) -> Self {
        Rd { b, pos: 0 }
    }
    pub fn byte(&mut self) -> Option<u8> {
        if self.pos < self.b.len && self.pos < BCAP {
            let x = self.b.d[self.pos];
            self.pos += 1;
            Some(x)
        } else {
            None
        }
    }
    pub fn done(&self) -> bool {
        self.pos == self.b.len
    }
}

/// Model XDR writer: injective per type, fixed layout for fixed shapes.
pub trait Ser {
    fn ser(&self, o: &mut Buf);
}
pub trait De: Sized {
    fn de(r: &mut Rd) -> Option<Self>;
}
/// Filler value for unused slots of inline containers (never observable).
pub trait MDefault {
    fn mdefault() -> Self;
}

macro_rules! int_ser {
    ($t:ty, $n:expr) => {
        impl Ser for $t {
            fn ser(&self, o: &mut Buf) {
                let b = self.to_be_bytes();
                let mut i = 0;
                while i < $n {
                    o.push(b[i]);
                    i += 1;
                }
            }
        }
        impl De for $t {
            fn de(r: &mut Rd) -> Option<Self> {
                let mut b = [0u8; $n];
                let mut i = 0;
                while i < $n {
                    b[i] = r.byte()?;
                    i += 1;
                }
                Some(<$t>::from_be_bytes(b))
            }
        }
        impl MDefault for $t {
            fn mdefault() -> Self {
                0
            }
        }
    };
}
int_ser!(u8, 1);
int_ser!(u32, 4);
int_ser!(i32, 4);
int_ser!(u64, 8);
int_ser!(i64, 8);
int_ser!(u128, 16);
int_ser!(i128, 16);
impl Ser for bool {
    fn ser(&self, o: &mut Buf) {
        o.push(*self as u8)
    }
}
impl De for bool {
    fn de(r: &mut Rd) -> Option<Self> {
        let b = r.byte()?;
        if b > 1 {
            None
        } else {
            Some(b != 0)
        }
    }
}
impl MDefault for bool {
    fn mdefault() -> Self {
        false
    }
}
impl Ser for () {
    fn ser(&self, o: &mut Buf) {
        o.push(0xF0);
    }
}
impl De for () {
    fn de(r: &mut Rd) -> Option<Self> {
        if r.byte()? == 0xF0 {
            Some(())
        } else {
            None
        }
    }
}
impl MDefault for () {
    fn mdefault() -> Self {}
}
impl<T: Ser> Ser for &T {
    fn ser(&self, o: &mut Buf) {
        (*self).ser(o)
    }
}
/// string literals (hash-domain prefixes): tag, length, bytes
impl Ser for &str {
    fn ser(&self, o: &mut Buf) {
        o.push(0xF1);
        o.push(self.len() as u8);
        o.extend(self.as_bytes());
    }
}
impl<T: Ser> Ser for Option<T> {
    fn ser(&self, o: &mut Buf) {
        match self {
            None => o.push(0),
            Some(x) => {
                o.push(1);
                x.ser(o)
            }
        }
    }
}
impl<T: De> De for Option<T> {
    fn de(r: &mut Rd) -> Option<Self> {
        let t = r.byte()?;
        if t == 0 {
            Some(None)
        } else if t == 1 {
            Some(Some(T::de(r)?))
        } else {
            None
        }
    }
}
impl<T> MDefault for Option<T> {
    fn mdefault() -> Self {
        None
    }
}
macro_rules! tup_ser { ($( ($a:expr; $($n:ident $i:tt),+) )+) => { $(
    impl<$($n: Ser),+> Ser for ($($n,)+) { fn ser(&self, o: &mut Buf) { o.push(0xE0 + $a); $( self.$i.ser(o); )+ } }
    impl<$($n: De),+> De for ($($n,)+) { fn de(r: &mut Rd) -> Option<Self> { if r.byte()? != 0xE0 + $a { return None; } Some(( $( $n::de(r)?, )+ )) } }
)+ } }
tup_ser! { (1; A 0) (2; A 0, B 1) (3; A 0, B 1, C 2) (4; A 0, B 1, C 2, D 3) (5; A 0, B 1, C 2, D 3, F 4) (6; A 0, B 1, C 2, D 3, F 4, G 5) (7; A 0, B 1, C 2, D 3, F 4, G 5, H 6) (8; A 0, B 1, C 2, D 3, F 4, G 5, H 6, I 7) (9; A 0, B 1, C 2, D 3, F 4, G 5, H 6, I 7, J 8) }
