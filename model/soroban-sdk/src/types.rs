//! Address, Bytes, BytesN, String, Symbol.
use crate::buf::{Buf, De, MDefault, Rd, Ser};
use crate::val::*;
use crate::{Env, BCAP, LONGB, SCAP};

// ------------------------------------------------------------------ Address
/// Opaque principal: a small integer id.  Id 0 is the designated "zero address".
#[derive(Clone, Debug, PartialEq, Eq, PartialOrd, Ord)]
pub struct Address(pub u32);
pub const ZERO_ADDRESS_STR: &str = "GAAAAAAAAAAAAAAAAAAAAAAAAAAAAAAAAAAAAAAAAAAAAAAAAAAAAWHF";
impl Address {
    /// Succeeds iff this principal's authorisation is available to the current call
    /// (signed authorisation tree entry, or it is the direct invoker); traps otherwise.
    pub fn require_auth(&self) {
        crate::model::require_auth_impl(self.0)
    }
    /// An authorisation bound to caller-chosen arguments is a DIFFERENT credential from the
    /// standard one (which the host binds to the invocation's own arguments): it is granted by a
    /// separate symbolic boolean per principal, so code that demands only this one does not
    /// establish `auth_of(principal)`.
    pub fn require_auth_for_args(&self, _args: crate::Vec<Val>) {
        crate::model::require_auth_for_args_impl(self.0)
    }
    pub fn to_val(&self) -> Val {
        Val::atom(T_ADDR, self.0 as u128)
    }
    pub fn from_string(s: &String) -> Address {
        if s.len == 1 && s.d[0] == 0xFF {
            Address(0)
        } else if s.len == 2 && s.d[0] == 0xFE {
            Address(s.d[1] as u32)
        } else {
            crate::mtrap!("TRAP:invalid strkey")
        }
    }
    pub fn to_string(&self) -> String {
        let mut s = String::empty();
        if self.0 == 0 {
            s.len = 1;
            s.d[0] = 0xFF;
        } else {
            if self.0 > 255 || SCAP < 2 {
                crate::mfail!("MODEL:address to_string range");
            }
            s.len = 2;
            s.d[0] = 0xFE;
            s.d[1] = self.0 as u8;
        }
        s
    }
}
impl Ser for Address {
    fn ser(&self, o: &mut Buf) {
        o.push(T_ADDR);
        self.0.ser(o)
    }
}
impl De for Address {
    fn de(r: &mut Rd) -> Option<Self> {
        if r.byte()? != T_ADDR {
            return None;
        }
        Some(Address(u32::de(r)?))
    }
}
impl MDefault for Address {
    fn mdefault() -> Self {
        Address(0)
    }
}
impl IntoVal<Env, Val> for Address {
    fn into_val(&self, _e: &Env) -> Val {
        Val::atom(T_ADDR, self.0 as u128)
    }
}
impl TryFromVal<Env, Val> for Address {
    type Error = ConversionError;
    fn try_from_val(_e: &Env, v: &Val) -> Result<Self, ConversionError> {
        if v.tag == T_ADDR {
            Ok(Address(v.w as u32))
        } else {
            Err(ConversionError)
        }
    }
}

// ------------------------------------------------------------------ Bytes
#[derive(Clone, Debug, PartialEq, Eq)]
pub struct Bytes(pub Buf);
/// Abstract LONG byte strings (profile switch LONGB=1): a byte string longer than any buffer of the
/// model, of ANY length up to u32::MAX, whose content is opaque.  It is represented inside the ordinary
/// buffer as 16 bytes: a reserved 4-byte mark, the true length (4 bytes), a content fingerprint (8 bytes).
/// Equality, serialisation and hashing therefore distinguish two long strings exactly by (length,
/// fingerprint); a proper sub-range has a fingerprint different from its source; reading individual
/// bytes or concatenating is outside the abstraction (MODEL: inconclusive).  Code that only passes a
/// payload on, hashes it, or cuts it — the gateway and the executable helper — is covered for every
/// payload length this way, which no concrete buffer size can do.
pub const LONG_MARK: [u8; 4] = [0xFD, 0x4C, 0x4F, 0x4E];
impl Bytes {
    #[inline(always)]
    pub fn is_long(&self) -> bool {
        LONGB != 0 && self.0.len == 16 && self.0.d[0] == LONG_MARK[0] && self.0.d[1] == LONG_MARK[1] && self.0.d[2] == LONG_MARK[2] && self.0.d[3] == LONG_MARK[3]
    }
    pub fn long_len(&self) -> u32 {
        ((self.0.d[4] as u32) << 24) | ((self.0.d[5] as u32) << 16) | ((self.0.d[6] as u32) << 8) | (self.0.d[7] as u32)
    }
    pub fn long_fp(&self) -> u64 {
        let mut f = 0u64;
        let mut i = 0;
        while i < 8 {
            f = (f << 8) | (self.0.d[8 + i] as u64);
            i += 1;
        }
        f
    }
    pub fn make_long(len: u32, fp: u64) -> Bytes {
        let mut b = Buf::new();
        b.extend(&LONG_MARK);
        b.extend(&len.to_be_bytes());
        b.extend(&fp.to_be_bytes());
        Bytes(b)
    }
    fn no_long(&self, _what: &'static str) {
        if self.is_long() {
            crate::mfail!("MODEL:content access or concatenation on an abstract long byte string");
        }
    }
    pub fn new(_e: &Env) -> Self {
        Bytes(Buf::new())
    }
    pub fn from_slice(_e: &Env, s: &[u8]) -> Self {
        Bytes(Buf::from_slice(s))
    }
    pub fn from_array<const N: usize>(_e: &Env, s: &[u8; N]) -> Self {
        Bytes(Buf::from_slice(s))
    }
    pub fn extend_from_array<const N: usize>(&mut self, a: &[u8; N]) {
        self.no_long("extend");
        self.0.extend(a)
    }
    pub fn extend_from_slice(&mut self, a: &[u8]) {
        self.no_long("extend");
        self.0.extend(a)
    }
    pub fn append(&mut self, o: &Bytes) {
        self.no_long("append");
        o.no_long("append");
        self.0.extend_buf(&o.0)
    }
    pub fn push_back(&mut self, x: u8) {
        self.no_long("push");
        self.0.push(x)
    }
    pub fn len(&self) -> u32 {
        if self.is_long() {
            return self.long_len();
        }
        self.0.len as u32
    }
    pub fn is_empty(&self) -> bool {
        self.0.len == 0
    }
    pub fn get(&self, i: u32) -> Option<u8> {
        self.no_long("get");
        if (i as usize) < self.0.len && (i as usize) < BCAP {
            Some(self.0.d[i as usize])
        } else {
            None
        }
    }
    pub fn first(&self) -> Option<u8> {
        self.get(0)
    }
    pub fn last(&self) -> Option<u8> {
        if self.0.len == 0 {
            None
        } else {
            self.get((self.0.len - 1) as u32)
        }
    }
    pub fn get_unchecked(&self, i: u32) -> u8 {
        match self.get(i) {
            Some(x) => x,
            None => crate::mtrap!("TRAP:bytes index"),
        }
    }
    pub fn set(&mut self, i: u32, x: u8) {
        self.no_long("set");
        if (i as usize) >= self.0.len || (i as usize) >= BCAP {
            crate::mtrap!("TRAP:bytes index");
        }
        self.0.d[i as usize] = x;
    }
    /// sub-range [a, b)
    pub fn slice(&self, r: impl core::ops::RangeBounds<u32>) -> Bytes {
        use core::ops::Bound;
        let a = match r.start_bound() {
            Bound::Included(x) => *x as usize,
            Bound::Excluded(x) => *x as usize + 1,
            Bound::Unbounded => 0,
        };
        let b = match r.end_bound() {
            Bound::Included(x) => *x as usize + 1,
            Bound::Excluded(x) => *x as usize,
            Bound::Unbounded => self.len() as usize,
        };
        if self.is_long() {
            let l = self.long_len() as usize;
            if a > b || b > l {
                crate::mtrap!("TRAP:bytes slice range");
            }
            if a == 0 && b == l {
                return self.clone();
            }
            if b - a > BCAP {
                // a proper sub-range that is still long: some other content
                let fp: u64 = crate::model::nondet_u64();
                crate::model::assume(fp != self.long_fp());
                return Bytes::make_long((b - a) as u32, fp);
            }
            // a short cut of opaque content: arbitrary bytes of that length
            let mut o = Buf::new();
            let mut i = 0;
            while i < BCAP {
                if i < b - a {
                    o.d[i] = crate::model::nondet_u8();
                }
                i += 1;
            }
            o.len = b - a;
            return Bytes(o);
        }
        if a > b || b > self.0.len {
            crate::mtrap!("TRAP:bytes slice range");
        }
        let mut o = Buf::new();
        let mut i = 0;
        while i < BCAP {
            if i >= a && i < b {
                o.d[i - a] = self.0.d[i];
            }
            i += 1;
        }
        o.len = b - a;
        Bytes(o)
    }
    pub fn iter(&self) -> BytesIter {
        self.no_long("iter");
        BytesIter { b: self.0, i: 0 }
    }
    pub fn to_val(&self) -> Val {
        Val::bufv(T_BYTES, self.0)
    }
    pub fn copy_into_slice(&self, out: &mut [u8]) {
        self.no_long("copy_into_slice");
        if out.len() != self.0.len {
            crate::mtrap!("TRAP:copy_into_slice length");
        }
        let mut i = 0;
        while i < BCAP {
            if i < self.0.len {
                out[i] = self.0.d[i];
            }
            i += 1;
        }
    }
    #[cfg(feature = "alloc")]
    pub fn to_alloc_vec(&self) -> std::vec::Vec<u8> {
        // one allocation of constant size, indexed writes, then a length cut: `push` on a heap
        // vector costs the symbolic executor minutes per element
        self.no_long("to_alloc_vec");
        let mut v = std::vec![0u8; BCAP];
        let mut i = 0;
        while i < self.0.len && i < BCAP {
            v[i] = self.0.d[i];
            i += 1;
        }
        v.truncate(self.0.len);
        v
    }
}
pub struct BytesIter {
    b: Buf,
    i: usize,
}
impl Iterator for BytesIter {
    type Item = u8;
    fn next(&mut self) -> Option<u8> {
        if self.i < self.b.len && self.i < BCAP {
            let x = self.b.d[self.i];
            self.i += 1;
            Some(x)
        } else {
            None
        }
    }
}
/// ScVal::Bytes prefix as in real XDR: discriminant 13, 4-byte big-endian length, then the bytes (unpadded here).
impl Ser for Bytes {
    fn ser(&self, o: &mut Buf) {
        o.push(0);
        o.push(0);
        o.push(0);
        o.push(13);
        o.push(0);
        o.push(0);
        o.push((self.0.len >> 8) as u8);
        o.push(self.0.len as u8);
        o.extend_buf(&self.0)
    }
}
impl De for Bytes {
    fn de(r: &mut Rd) -> Option<Self> {
        if r.byte()? != 0 || r.byte()? != 0 || r.byte()? != 0 || r.byte()? != 13 {
            return None;
        }
        if r.byte()? != 0 || r.byte()? != 0 {
            return None;
        }
        let hi = r.byte()? as usize;
        let lo = r.byte()? as usize;
        let n = (hi << 8) | lo;
        if n > BCAP {
            return None;
        }
        let mut b = Buf::new();
        let mut i = 0;
        while i < BCAP {
            if i < n {
                b.push(r.byte()?);
            }
            i += 1;
        }
        Some(Bytes(b))
    }
}
impl MDefault for Bytes {
    fn mdefault() -> Self {
        Bytes(Buf::new())
    }
}
impl IntoVal<Env, Val> for Bytes {
    fn into_val(&self, _e: &Env) -> Val {
        Val::bufv(T_BYTES, self.0)
    }
}
impl TryFromVal<Env, Val> for Bytes {
    type Error = ConversionError;
    fn try_from_val(_e: &Env, v: &Val) -> Result<Self, ConversionError> {
        if v.tag == T_BYTES {
            Ok(Bytes(v.b))
        } else {
            Err(ConversionError)
        }
    }
}

// ------------------------------------------------------------------ BytesN
/// A bare array: no length field, so it can sit inside the contracts' own enums.
#[derive(Clone, Debug, PartialOrd, Ord)]
pub struct BytesN<const N: usize>(pub [u8; N]);
impl<const N: usize> PartialEq for BytesN<N> {
    fn eq(&self, o: &Self) -> bool {
        let mut same = true;
        let mut i = 0;
        while i < N {
            if self.0[i] != o.0[i] {
                same = false;
            }
            i += 1;
        }
        same
    }
}
impl<const N: usize> Eq for BytesN<N> {}
static mut ASREF_SCRATCH: Bytes = Bytes(Buf::new());
impl<const N: usize> BytesN<N> {
    pub fn from_array(_e: &Env, a: &[u8; N]) -> Self {
        BytesN(*a)
    }
    pub fn to_array(&self) -> [u8; N] {
        self.0
    }
    pub fn to_buf(&self) -> Buf {
        if N > BCAP {
            crate::mfail!("MODEL:buffer capacity");
        }
        let mut b = Buf::new();
        let mut i = 0;
        while i < N && i < BCAP {
            b.d[i] = self.0[i];
            i += 1;
        }
        b.len = N;
        b
    }
    pub fn to_val(&self) -> Val {
        Val::bufv(T_BYTES, self.to_buf())
    }
    pub fn len(&self) -> u32 {
        N as u32
    }
}
impl<const N: usize> AsRef<Bytes> for BytesN<N> {
    fn as_ref(&self) -> &Bytes {
        unsafe {
            ASREF_SCRATCH = Bytes(self.to_buf());
            &ASREF_SCRATCH
        }
    }
}
impl<const N: usize> TryFrom<Bytes> for BytesN<N> {
    type Error = ConversionError;
    fn try_from(b: Bytes) -> Result<Self, ConversionError> {
        BytesN::<N>::try_from(&b)
    }
}
impl<const N: usize> TryFrom<&Bytes> for BytesN<N> {
    type Error = ConversionError;
    fn try_from(b: &Bytes) -> Result<Self, ConversionError> {
        if b.0.len != N || b.is_long() {
            return Err(ConversionError);
        }
        let mut a = [0u8; N];
        let mut i = 0;
        while i < N && i < BCAP {
            a[i] = b.0.d[i];
            i += 1;
        }
        Ok(BytesN(a))
    }
}
impl<const N: usize> From<BytesN<N>> for Bytes {
    fn from(b: BytesN<N>) -> Bytes {
        Bytes(b.to_buf())
    }
}
impl<const N: usize> From<BytesN<N>> for [u8; N] {
    fn from(b: BytesN<N>) -> [u8; N] {
        b.0
    }
}
impl<const N: usize> From<&BytesN<N>> for [u8; N] {
    fn from(b: &BytesN<N>) -> [u8; N] {
        b.0
    }
}
impl<const N: usize> Ser for BytesN<N> {
    fn ser(&self, o: &mut Buf) {
        let mut i = 0;
        while i < N {
            o.push(self.0[i]);
            i += 1;
        }
    }
}
impl<const N: usize> De for BytesN<N> {
    fn de(r: &mut Rd) -> Option<Self> {
        let mut a = [0u8; N];
        let mut i = 0;
        while i < N {
            a[i] = r.byte()?;
            i += 1;
        }
        Some(BytesN(a))
    }
}
impl<const N: usize> MDefault for BytesN<N> {
    fn mdefault() -> Self {
        BytesN([0; N])
    }
}
impl<const N: usize> IntoVal<Env, Val> for BytesN<N> {
    fn into_val(&self, _e: &Env) -> Val {
        self.to_val()
    }
}
impl<const N: usize> TryFromVal<Env, Val> for BytesN<N> {
    type Error = ConversionError;
    fn try_from_val(_e: &Env, v: &Val) -> Result<Self, ConversionError> {
        if v.tag == T_BYTES && v.b.len == N {
            let mut a = [0u8; N];
            let mut i = 0;
            while i < N && i < BCAP {
                a[i] = v.b.d[i];
                i += 1;
            }
            Ok(BytesN(a))
        } else {
            Err(ConversionError)
        }
    }
}

// ------------------------------------------------------------------ String
/// Invariant: bytes at positions >= len are zero.  The 56-character zero-address literal is
/// represented by the reserved one-byte string 0xFF (see Address::from_string).
#[derive(Clone, Debug)]
pub struct String {
    pub len: usize,
    pub d: [u8; SCAP],
}
impl PartialEq for String {
    fn eq(&self, o: &Self) -> bool {
        let mut same = self.len == o.len;
        let mut i = 0;
        while i < SCAP {
            if self.d[i] != o.d[i] {
                same = false;
            }
            i += 1;
        }
        same
    }
}
impl Eq for String {}
impl String {
    pub const fn empty() -> Self {
        String { len: 0, d: [0; SCAP] }
    }
    pub fn from_str(_e: &Env, s: &str) -> Self {
        Self::from_bytes(_e, s.as_bytes())
    }
    pub fn from_bytes(_e: &Env, s: &[u8]) -> Self {
        let mut o = String::empty();
        if s.len() == 56 {
            // only the zero-address literal is this long in the workspace
            let z = ZERO_ADDRESS_STR.as_bytes();
            let mut i = 0;
            while i < 56 {
                if s[i] != z[i] {
                    crate::mfail!("MODEL:string capacity");
                }
                i += 1;
            }
            o.len = 1;
            o.d[0] = 0xFF;
            return o;
        }
        if s.len() > SCAP {
            crate::mfail!("MODEL:string capacity");
        }
        let mut i = 0;
        while i < s.len() && i < SCAP {
            o.d[i] = s[i];
            i += 1;
        }
        o.len = s.len();
        o
    }
    pub fn len(&self) -> u32 {
        self.len as u32
    }
    pub fn is_empty(&self) -> bool {
        self.len == 0
    }
    pub fn to_val(&self) -> Val {
        let mut b = Buf::new();
        let mut i = 0;
        while i < SCAP {
            b.d[i] = self.d[i];
            i += 1;
        }
        b.len = self.len;
        Val::bufv(T_STR, b)
    }
    pub fn copy_into_slice(&self, out: &mut [u8]) {
        if out.len() != self.len {
            crate::mtrap!("TRAP:copy_into_slice length");
        }
        let mut i = 0;
        while i < SCAP {
            if i < self.len {
                out[i] = self.d[i];
            }
            i += 1;
        }
    }
}
/// Layout of a string inside model XDR follows real XDR's ScVal::String prefix: 4-byte discriminant (14),
/// 4-byte big-endian length, then the bytes — here padded to the fixed width SCAP (real XDR pads to 4),
/// so `to_xdr().slice(8..8+len)` yields the string's bytes as on the real host.
impl Ser for String {
    fn ser(&self, o: &mut Buf) {
        o.push(0);
        o.push(0);
        o.push(0);
        o.push(14);
        o.push(0);
        o.push(0);
        o.push(0);
        o.push(self.len as u8);
        let mut i = 0;
        while i < SCAP {
            o.push(self.d[i]);
            i += 1;
        }
    }
}
impl De for String {
    fn de(r: &mut Rd) -> Option<Self> {
        if r.byte()? != 0 || r.byte()? != 0 || r.byte()? != 0 || r.byte()? != 14 {
            return None;
        }
        if r.byte()? != 0 || r.byte()? != 0 || r.byte()? != 0 {
            return None;
        }
        let n = r.byte()? as usize;
        if n > SCAP {
            return None;
        }
        let mut s = String::empty();
        let mut i = 0;
        while i < SCAP {
            s.d[i] = r.byte()?;
            i += 1;
        }
        s.len = n;
        Some(s)
    }
}
impl MDefault for String {
    fn mdefault() -> Self {
        String::empty()
    }
}
impl IntoVal<Env, Val> for String {
    fn into_val(&self, _e: &Env) -> Val {
        self.to_val()
    }
}
impl TryFromVal<Env, Val> for String {
    type Error = ConversionError;
    fn try_from_val(_e: &Env, v: &Val) -> Result<Self, ConversionError> {
        if v.tag == T_STR && v.b.len <= SCAP {
            let mut s = String::empty();
            let mut i = 0;
            while i < SCAP {
                s.d[i] = v.b.d[i];
                i += 1;
            }
            s.len = v.b.len;
            Ok(s)
        } else {
            Err(ConversionError)
        }
    }
}

// ------------------------------------------------------------------ Symbol
#[derive(Clone, Copy, Debug)]
pub struct Symbol {
    pub len: usize,
    pub d: [u8; 32],
}
impl PartialEq for Symbol {
    fn eq(&self, o: &Self) -> bool {
        let mut same = self.len == o.len;
        let mut i = 0;
        while i < 32 {
            if self.d[i] != o.d[i] {
                same = false;
            }
            i += 1;
        }
        same
    }
}
impl Eq for Symbol {}
impl Symbol {
    pub const fn short(s: &str) -> Self {
        let b = s.as_bytes();
        let mut d = [0u8; 32];
        let mut i = 0;
        while i < b.len() && i < 32 {
            d[i] = b[i];
            i += 1;
        }
        Symbol { len: b.len(), d }
    }
    pub fn new(_e: &Env, s: &str) -> Self {
        if s.len() > 32 {
            crate::mtrap!("TRAP:symbol too long");
        }
        Symbol::short(s)
    }
    pub fn to_val(&self) -> Val {
        let mut b = Buf::new();
        let mut i = 0;
        while i < 32 && i < BCAP {
            b.d[i] = self.d[i];
            i += 1;
        }
        b.len = self.len;
        Val::bufv(T_SYM, b)
    }
}
impl IntoVal<Env, Val> for Symbol {
    fn into_val(&self, _e: &Env) -> Val {
        self.to_val()
    }
}
impl TryFromVal<Env, Val> for Symbol {
    type Error = ConversionError;
    fn try_from_val(_e: &Env, v: &Val) -> Result<Self, ConversionError> {
        if v.tag == T_SYM && v.b.len <= 32 {
            let mut d = [0u8; 32];
            let mut i = 0;
            while i < 32 && i < BCAP {
                d[i] = v.b.d[i];
                i += 1;
            }
            Ok(Symbol { len: v.b.len, d })
        } else {
            Err(ConversionError)
        }
    }
}
