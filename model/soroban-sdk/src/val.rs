//! Flat dynamic value: a plain tagged struct (never a data-carrying enum).
use crate::buf::{Buf, De, MDefault, Rd, Ser};
use crate::{Env, Vec};

#[derive(Clone, Copy, Debug, PartialEq, Eq)]
pub struct ConversionError;

#[derive(Clone, Copy, Debug, PartialEq, Eq)]
pub struct Error {
    pub contract: bool,
    pub code: u32,
}
impl Error {
    pub const fn from_contract_error(code: u32) -> Error {
        Error { contract: true, code }
    }
    pub const fn host(code: u32) -> Error {
        Error { contract: false, code }
    }
}
impl From<ConversionError> for Error {
    fn from(_: ConversionError) -> Error {
        Error::host(1)
    }
}
impl From<core::convert::Infallible> for Error {
    fn from(_: core::convert::Infallible) -> Error {
        Error::host(0)
    }
}

#[derive(Clone, Copy, Debug, PartialEq, Eq)]
pub enum InvokeError {
    Abort,
    Contract(u32),
}
pub const T_VOID: u8 = 0;
pub const T_BOOL: u8 = 1;
pub const T_U32: u8 = 2;
pub const T_U64: u8 = 3;
pub const T_U128: u8 = 4;
pub const T_I128: u8 = 5;
pub const T_ADDR: u8 = 6;
pub const T_SYM: u8 = 7;
pub const T_BYTES: u8 = 8;
pub const T_STR: u8 = 9;
pub const T_SER: u8 = 10;
pub const T_ERR: u8 = 11;

/// tag < T_SYM: the value is `w`; tag >= T_SYM: the value is the buffer `b`.
#[derive(Clone, Copy, Debug)]
pub struct Val {
    pub tag: u8,
    pub w: u128,
    pub b: Buf,
}
impl Val {
    pub const VOID: Val = Val { tag: T_VOID, w: 0, b: Buf::new() };
    pub const fn atom(tag: u8, w: u128) -> Val {
        Val { tag, w, b: Buf::new() }
    }
    pub const fn bufv(tag: u8, b: Buf) -> Val {
        Val { tag, w: 0, b }
    }
    pub fn ser_of<T: Ser>(x: &T) -> Val {
        let mut o = Buf::new();
        x.ser(&mut o);
        Val::bufv(T_SER, o)
    }
    pub fn is_void(&self) -> bool {
        self.tag == T_VOID
    }
    pub fn to_val(&self) -> Val {
        *self
    }
}
impl Default for Val {
    fn default() -> Val {
        Val::VOID
    }
}
impl MDefault for Val {
    fn mdefault() -> Val {
        Val::VOID
    }
}
impl PartialEq for Val {
    fn eq(&self, o: &Val) -> bool {
        self.tag == o.tag && self.w == o.w && self.b.eq(&o.b)
    }
}
impl Eq for Val {}
impl Ser for Val {
    fn ser(&self, o: &mut Buf) {
        o.push(self.tag);
        if self.tag == T_STR {
            // fixed width (zero padded), so that later positions stay constants
            o.push(self.b.len as u8);
            o.extend_fixed(&self.b, crate::SCAP)
        } else if self.tag >= T_SYM {
            o.push(self.b.len as u8);
            o.extend_buf(&self.b)
        } else if self.tag != T_VOID {
            self.w.ser(o)
        }
    }
}
impl De for Val {
    fn de(r: &mut Rd) -> Option<Self> {
        let tag = r.byte()?;
        if tag == T_STR {
            let n = r.byte()? as usize;
            if n > crate::SCAP {
                return None;
            }
            let mut b = Buf::new();
            let mut i = 0;
            while i < crate::SCAP {
                b.d[i] = r.byte()?;
                i += 1;
            }
            b.len = n;
            Some(Val::bufv(tag, b))
        } else if tag >= T_SYM {
            let n = r.byte()? as usize;
            let mut b = Buf::new();
            let mut i = 0;
            while i < crate::BCAP {
                if i < n {
                    b.push(r.byte()?);
                }
                i += 1;
            }
            Some(Val::bufv(tag, b))
        } else if tag != T_VOID {
            Some(Val::atom(tag, u128::de(r)?))
        } else {
            Some(Val::VOID)
        }
    }
}

pub trait IntoVal<E, T> {
    fn into_val(&self, e: &E) -> T;
}
pub trait TryFromVal<E, V>: Sized {
    type Error;
    fn try_from_val(e: &E, v: &V) -> Result<Self, Self::Error>;
}
pub trait FromVal<E, V>: Sized {
    fn from_val(e: &E, v: &V) -> Self;
}
impl<E, V, T: TryFromVal<E, V>> FromVal<E, V> for T {
    fn from_val(e: &E, v: &V) -> Self {
        match T::try_from_val(e, v) {
            Ok(x) => x,
            Err(_) => crate::mtrap!("TRAP:value conversion"),
        }
    }
}
pub trait TryIntoVal<E, V> {
    type Error;
    fn try_into_val(&self, e: &E) -> Result<V, Self::Error>;
}

macro_rules! prim {
    ($t:ty, $v:ident) => {
        impl IntoVal<Env, Val> for $t {
            fn into_val(&self, _e: &Env) -> Val {
                Val::atom($v, *self as u128)
            }
        }
        impl TryFromVal<Env, Val> for $t {
            type Error = ConversionError;
            fn try_from_val(_e: &Env, v: &Val) -> Result<Self, ConversionError> {
                if v.tag == $v {
                    Ok(v.w as $t)
                } else {
                    Err(ConversionError)
                }
            }
        }
    };
}
prim!(u32, T_U32);
prim!(u64, T_U64);
prim!(u128, T_U128);
prim!(i128, T_I128);
impl IntoVal<Env, Val> for bool {
    fn into_val(&self, _e: &Env) -> Val {
        Val::atom(T_BOOL, *self as u128)
    }
}
impl TryFromVal<Env, Val> for bool {
    type Error = ConversionError;
    fn try_from_val(_e: &Env, v: &Val) -> Result<Self, ConversionError> {
        if v.tag == T_BOOL {
            Ok(v.w != 0)
        } else {
            Err(ConversionError)
        }
    }
}
impl IntoVal<Env, Val> for () {
    fn into_val(&self, _e: &Env) -> Val {
        Val::VOID
    }
}
impl TryFromVal<Env, Val> for () {
    type Error = ConversionError;
    fn try_from_val(_e: &Env, v: &Val) -> Result<Self, ConversionError> {
        if v.tag == T_VOID {
            Ok(())
        } else {
            Err(ConversionError)
        }
    }
}
impl IntoVal<Env, Val> for Val {
    fn into_val(&self, _e: &Env) -> Val {
        *self
    }
}
impl TryFromVal<Env, Val> for Val {
    type Error = ConversionError;
    fn try_from_val(_e: &Env, v: &Val) -> Result<Self, ConversionError> {
        Ok(*v)
    }
}
impl IntoVal<Env, Val> for &str {
    fn into_val(&self, _e: &Env) -> Val {
        Val::bufv(T_STR, Buf::from_slice(self.as_bytes()))
    }
}
impl<T: IntoVal<Env, Val>> IntoVal<Env, Val> for &T {
    fn into_val(&self, e: &Env) -> Val {
        (*self).into_val(e)
    }
}
impl<T: IntoVal<Env, Val>> IntoVal<Env, Val> for Option<T> {
    fn into_val(&self, e: &Env) -> Val {
        match self {
            Some(x) => x.into_val(e),
            None => Val::VOID,
        }
    }
}
impl<T: TryFromVal<Env, Val>> TryFromVal<Env, Val> for Option<T> {
    type Error = ConversionError;
    fn try_from_val(e: &Env, v: &Val) -> Result<Self, ConversionError> {
        if v.tag == T_VOID {
            Ok(None)
        } else {
            T::try_from_val(e, v).map(Some).map_err(|_| ConversionError)
        }
    }
}
/// Event topics.  MODEL: a topic tuple serialises itself (count byte, then each topic `Val`) into the
/// event log; it is not converted into a `Vec<Val>` (so the topic count does not depend on VCAP).
pub trait Topics {
    fn ser_topics(&self, e: &Env, o: &mut Buf);
}
/// Constructor arguments of `deploy_v2`: serialised like topics.
pub trait ConstructorArgs {
    fn ser_args(&self, e: &Env, o: &mut Buf);
}
macro_rules! tuples { ($( ($a:expr; $($n:ident $i:tt),+) )+) => { $(
    impl<$($n: IntoVal<Env, Val>),+> IntoVal<Env, Val> for ($($n,)+) { fn into_val(&self, e: &Env) -> Val { let mut o = Buf::new(); o.push(0xE0 + $a); $( self.$i.into_val(e).ser(&mut o); )+ Val::bufv(T_SER, o) } }
    impl<$($n: IntoVal<Env, Val>),+> IntoVal<Env, Vec<Val>> for ($($n,)+) { fn into_val(&self, e: &Env) -> Vec<Val> { let mut v = Vec::new(e); $( v.push_back(self.$i.into_val(e)); )+ v } }
    impl<$($n: IntoVal<Env, Val>),+> Topics for ($($n,)+) { fn ser_topics(&self, e: &Env, o: &mut Buf) { o.push($a); $( self.$i.into_val(e).ser(o); )+ } }
    impl<$($n: IntoVal<Env, Val>),+> ConstructorArgs for ($($n,)+) { fn ser_args(&self, e: &Env, o: &mut Buf) { o.push($a); $( self.$i.into_val(e).ser(o); )+ } }
)+ } }
tuples! { (1; A 0) (2; A 0, B 1) (3; A 0, B 1, C 2) (4; A 0, B 1, C 2, D 3) (5; A 0, B 1, C 2, D 3, F 4) (6; A 0, B 1, C 2, D 3, F 4, G 5) (7; A 0, B 1, C 2, D 3, F 4, G 5, H 6) (8; A 0, B 1, C 2, D 3, F 4, G 5, H 6, I 7) (9; A 0, B 1, C 2, D 3, F 4, G 5, H 6, I 7, J 8) }
impl ConstructorArgs for () {
    fn ser_args(&self, e: &Env, o: &mut Buf) {
        o.push(0);
    }
}
