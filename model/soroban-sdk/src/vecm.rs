//! Vec<T>: inline array + length, element-wise Clone, constant-bound loops.
use crate::buf::{Buf, De, MDefault, Rd, Ser};
use crate::val::*;
use crate::{Env, VCAP};

#[derive(Debug)]
pub struct Vec<T> {
    pub n: usize,
    pub a: [T; VCAP],
}
impl<T: Clone + MDefault> Clone for Vec<T> {
    fn clone(&self) -> Self {
        let mut v = Self::mdefault();
        let mut i = 0;
        while i < VCAP {
            if i < self.n {
                v.a[i] = self.a[i].clone();
            }
            i += 1;
        }
        v.n = self.n;
        v
    }
}
impl<T: PartialEq> Vec<T> {
    pub fn contains(&self, x: impl core::borrow::Borrow<T>) -> bool {
        let x = x.borrow();
        let mut r = false;
        let mut i = 0;
        while i < VCAP {
            if i < self.n && self.a[i] == *x {
                r = true;
            }
            i += 1;
        }
        r
    }
    pub fn first_index_of(&self, x: impl core::borrow::Borrow<T>) -> Option<u32> {
        let x = x.borrow();
        let mut r = None;
        let mut i = VCAP;
        while i > 0 {
            i -= 1;
            if i < self.n && self.a[i] == *x {
                r = Some(i as u32);
            }
        }
        r
    }
}
impl<T: PartialEq> PartialEq for Vec<T> {
    fn eq(&self, o: &Self) -> bool {
        let mut same = self.n == o.n;
        let mut i = 0;
        while i < VCAP {
            if i < self.n && i < o.n && self.a[i] != o.a[i] {
                same = false;
            }
            i += 1;
        }
        same
    }
}
impl<T: Eq> Eq for Vec<T> {}
impl<T: MDefault> MDefault for Vec<T> {
    fn mdefault() -> Self {
        Vec { n: 0, a: mk_arr!(T::mdefault()) }
    }
}
impl<T: MDefault> Vec<T> {
    pub fn new(_e: &Env) -> Self {
        Self::mdefault()
    }
    pub fn from_array<const N: usize>(e: &Env, a: [T; N]) -> Self {
        let mut v = Vec::new(e);
        for x in a {
            v.push_back(x);
        }
        v
    }
}
impl<T: MDefault + Clone> Vec<T> {
    pub fn from_slice(e: &Env, a: &[T]) -> Self {
        let mut v = Vec::new(e);
        let mut i = 0;
        while i < a.len() {
            v.push_back(a[i].clone());
            i += 1;
        }
        v
    }
}
impl<T> Vec<T> {
    pub fn env(&self) -> &Env {
        &Env
    }
    pub fn push_back(&mut self, x: T) {
        if self.n >= VCAP {
            crate::mfail!("MODEL:vec capacity");
        }
        self.a[self.n] = x;
        self.n += 1;
    }
    pub fn len(&self) -> u32 {
        self.n as u32
    }
    pub fn is_empty(&self) -> bool {
        self.n == 0
    }
    pub fn at(&self, i: usize) -> &T {
        if i >= self.n || i >= VCAP {
            crate::mfail!("MODEL:vec index");
        }
        &self.a[i]
    }
}
impl<T: Clone + MDefault> Vec<T> {
    pub fn get(&self, i: u32) -> Option<T> {
        if (i as usize) < self.n && (i as usize) < VCAP {
            Some(self.a[i as usize].clone())
        } else {
            None
        }
    }
    pub fn get_unchecked(&self, i: u32) -> T {
        self.at(i as usize).clone()
    }
    pub fn first(&self) -> Option<T> {
        self.get(0)
    }
    pub fn last(&self) -> Option<T> {
        if self.n == 0 {
            None
        } else {
            self.get((self.n - 1) as u32)
        }
    }
    pub fn first_unchecked(&self) -> T {
        self.at(0).clone()
    }
    pub fn last_unchecked(&self) -> T {
        if self.n == 0 {
            crate::mtrap!("TRAP:vec index");
        }
        self.at(self.n - 1).clone()
    }
    pub fn try_get(&self, i: u32) -> Result<Option<T>, crate::ConversionError> {
        Ok(self.get(i))
    }
    pub fn set(&mut self, i: u32, x: T) {
        if (i as usize) >= self.n || (i as usize) >= VCAP {
            crate::mtrap!("TRAP:vec index");
        }
        self.a[i as usize] = x;
    }
    pub fn pop_back(&mut self) -> Option<T> {
        if self.n == 0 {
            None
        } else {
            let x = self.a[self.n - 1].clone();
            self.n -= 1;
            Some(x)
        }
    }
    pub fn pop_front(&mut self) -> Option<T> {
        if self.n == 0 {
            return None;
        }
        let x = self.a[0].clone();
        let mut i = 0;
        while i + 1 < VCAP {
            if i + 1 < self.n {
                self.a[i] = self.a[i + 1].clone();
            }
            i += 1;
        }
        self.n -= 1;
        Some(x)
    }
    pub fn remove(&mut self, idx: u32) -> Option<()> {
        let idx = idx as usize;
        if idx >= self.n {
            return None;
        }
        let mut i = 0;
        while i + 1 < VCAP {
            if i >= idx && i + 1 < self.n {
                self.a[i] = self.a[i + 1].clone();
            }
            i += 1;
        }
        self.n -= 1;
        Some(())
    }
    pub fn push_front(&mut self, x: T) {
        if self.n >= VCAP {
            crate::mfail!("MODEL:vec capacity");
        }
        let mut i = VCAP - 1;
        while i > 0 {
            if i <= self.n {
                self.a[i] = self.a[i - 1].clone();
            }
            i -= 1;
        }
        self.a[0] = x;
        self.n += 1;
    }
    pub fn insert(&mut self, idx: u32, x: T) {
        let idx = idx as usize;
        if idx > self.n {
            crate::mtrap!("TRAP:vec index");
        }
        if self.n >= VCAP {
            crate::mfail!("MODEL:vec capacity");
        }
        let mut i = VCAP - 1;
        while i > 0 {
            if i > idx && i <= self.n {
                self.a[i] = self.a[i - 1].clone();
            }
            i -= 1;
        }
        self.a[idx] = x;
        self.n += 1;
    }
    pub fn append(&mut self, o: &Vec<T>) {
        let mut i = 0;
        while i < VCAP {
            if i < o.n {
                self.push_back(o.a[i].clone());
            }
            i += 1;
        }
    }
    pub fn iter(&self) -> VecIter<T> {
        VecIter { v: self.clone(), i: 0 }
    }
}
pub struct VecIter<T> {
    v: Vec<T>,
    i: usize,
}
impl<T: Clone + MDefault> Iterator for VecIter<T> {
    type Item = T;
    fn next(&mut self) -> Option<T> {
        if self.i < self.v.n && self.i < VCAP {
            let x = self.v.a[self.i].clone();
            self.i += 1;
            Some(x)
        } else {
            None
        }
    }
}
impl<T: Clone + MDefault> IntoIterator for Vec<T> {
    type Item = T;
    type IntoIter = VecIter<T>;
    fn into_iter(self) -> VecIter<T> {
        VecIter { v: self, i: 0 }
    }
}
impl<T: Ser> Ser for Vec<T> {
    fn ser(&self, o: &mut Buf) {
        o.push(0xD0);
        o.push(self.n as u8);
        let mut i = 0;
        while i < VCAP {
            if i < self.n {
                self.a[i].ser(o);
            }
            i += 1;
        }
    }
}
impl<T: De + MDefault> De for Vec<T> {
    fn de(r: &mut Rd) -> Option<Self> {
        if r.byte()? != 0xD0 {
            return None;
        }
        let n = r.byte()? as usize;
        if n > VCAP {
            return None;
        }
        let mut o = Vec::mdefault();
        let mut i = 0;
        while i < VCAP {
            if i < n {
                o.push_back(T::de(r)?);
            }
            i += 1;
        }
        Some(o)
    }
}
impl<T: Ser> IntoVal<Env, Val> for Vec<T> {
    fn into_val(&self, e: &Env) -> Val {
        Val::ser_of(self)
    }
}
impl<T: De + MDefault> TryFromVal<Env, Val> for Vec<T> {
    type Error = ConversionError;
    fn try_from_val(e: &Env, v: &Val) -> Result<Self, ConversionError> {
        if v.tag == T_SER {
            let mut r = Rd::new(&v.b);
            Self::de(&mut r).ok_or(ConversionError)
        } else {
            Err(ConversionError)
        }
    }
}
