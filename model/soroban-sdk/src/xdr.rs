//! Model XDR: the type-directed serialisation of buf.rs (injective per type; NOT byte-identical
//! to real XDR — golden hashes are outside every claim).
use crate::buf::{Buf, De, Rd, Ser};
use crate::{Bytes, Env};
pub trait ToXdr {
    fn to_xdr(self, e: &Env) -> Bytes;
}
impl<T: Ser> ToXdr for T {
    fn to_xdr(self, e: &Env) -> Bytes {
        let mut o = Buf::new();
        self.ser(&mut o);
        Bytes(o)
    }
}
pub trait FromXdr: Sized {
    type Error;
    fn from_xdr(e: &Env, b: &Bytes) -> Result<Self, Self::Error>;
}
impl<T: De> FromXdr for T {
    type Error = crate::ConversionError;
    fn from_xdr(e: &Env, b: &Bytes) -> Result<Self, Self::Error> {
        let mut r = Rd::new(&b.0);
        match T::de(&mut r) {
            Some(x) if r.done() => Ok(x),
            _ => Err(crate::ConversionError),
        }
    }
}
