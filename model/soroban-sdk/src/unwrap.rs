pub trait UnwrapOptimized {
    type Output;
    fn unwrap_optimized(self) -> Self::Output;
}
impl<T> UnwrapOptimized for Option<T> {
    type Output = T;
    fn unwrap_optimized(self) -> T {
        match self {
            Some(x) => x,
            None => crate::mtrap!("TRAP:unwrap_optimized"),
        }
    }
}
impl<T, E> UnwrapOptimized for Result<T, E> {
    type Output = T;
    fn unwrap_optimized(self) -> T {
        match self {
            Ok(x) => x,
            Err(_) => crate::mtrap!("TRAP:unwrap_optimized"),
        }
    }
}
