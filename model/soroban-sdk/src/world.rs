//! World state: struct-of-arrays statics, constant-bound loops.  No rollback is modelled: a trap
//! ends the path under Kani, and contract code in this workspace never uses `try_` calls, so the
//! only observer of a failed call is the harness, which treats Err/trap as "transaction reverted".
use crate::buf::Buf;
use crate::val::*;
use crate::{Address, BytesN, ECAP, KW, NSLOT, VW};

pub(crate) static mut S_N: usize = 0;
pub(crate) static mut S_C: [u32; NSLOT] = [0; NSLOT];
pub(crate) static mut S_D: [u8; NSLOT] = [0; NSLOT];
pub(crate) static mut S_USED: [bool; NSLOT] = [false; NSLOT];
pub(crate) static mut S_KLEN: [usize; NSLOT] = [0; NSLOT];
pub(crate) static mut S_K: [[u8; KW]; NSLOT] = [[0; KW]; NSLOT];
pub(crate) static mut S_VTAG: [u8; NSLOT] = [0; NSLOT];
pub(crate) static mut S_VW: [u128; NSLOT] = [0; NSLOT];
pub(crate) static mut S_VLEN: [usize; NSLOT] = [0; NSLOT];
pub(crate) static mut S_VB: [[u8; VW]; NSLOT] = [[0; VW]; NSLOT];
pub(crate) static mut S_WRITES: u32 = 0;

pub(crate) const FCAP: usize = 4;
pub(crate) static mut FRAME: [u32; FCAP] = [0; FCAP];
pub(crate) static mut DEPTH: usize = 0;
pub(crate) static mut TS: u64 = 0;
pub(crate) static mut SEQ: u32 = 0;

pub(crate) static mut NEV: usize = 0;
pub(crate) static mut EV_C: [u32; ECAP] = [0; ECAP];
pub(crate) static mut EV_T: [Buf; ECAP] = [Buf::new(); ECAP];
pub(crate) static mut EV_D: [Val; ECAP] = [Val::VOID; ECAP];

pub(crate) const WCAP: usize = 8;
pub(crate) static mut WASM_N: usize = 0;
pub(crate) static mut WASM_C: [u32; WCAP] = [0; WCAP];
pub(crate) static mut WASM_H: [[u8; 32]; WCAP] = [[0; 32]; WCAP];

pub(crate) fn cur() -> u32 {
    unsafe {
        if DEPTH == 0 || DEPTH > FCAP {
            crate::mfail!("MODEL:no current contract frame");
        }
        FRAME[DEPTH - 1]
    }
}

#[derive(Clone, Debug, PartialEq, Eq)]
pub struct Env;
impl Default for Env {
    fn default() -> Self {
        crate::model::reset();
        Env
    }
}
impl Env {
    pub fn storage(&self) -> Storage {
        Storage
    }
    pub fn crypto(&self) -> crate::crypto::Crypto {
        crate::crypto::Crypto
    }
    pub fn ledger(&self) -> Ledger {
        Ledger
    }
    pub fn events(&self) -> Events {
        Events
    }
    pub fn deployer(&self) -> Deployer {
        Deployer
    }
    pub fn current_contract_address(&self) -> Address {
        Address(cur())
    }
    pub fn as_contract<T>(&self, a: &Address, f: impl FnOnce() -> T) -> T {
        crate::model::with_contract(a, f)
    }
    /// Generic cross-contract call (operators.execute, Upgrader.upgrade).  Routed through the
    /// non-generic `model::invoke_raw`, which harnesses replace with a probe (`#[kani::stub]`).
    pub fn invoke_contract<T: TryFromVal<Env, Val>>(&self, a: &Address, f: &crate::Symbol, args: crate::Vec<Val>) -> T {
        let r = crate::model::invoke_raw(a, f, args);
        T::from_val(self, &r)
    }
}
impl Env {
    /// failure of the callee is a symbolic choice and is returned, not trapped
    pub fn try_invoke_contract<T: TryFromVal<Env, Val>, E>(&self, a: &Address, f: &crate::Symbol, args: crate::Vec<Val>) -> Result<Result<T, ConversionError>, Result<E, crate::InvokeError>> {
        if crate::model::nondet_callee_failure() {
            return Err(Err(crate::model::nondet_invoke_error()));
        }
        let r = crate::model::invoke_raw(a, f, args);
        Ok(T::try_from_val(self, &r).map_err(|_| ConversionError))
    }
}
pub struct Ledger;
impl Ledger {
    pub fn max_live_until_ledger(&self) -> u32 {
        unsafe { SEQ }.saturating_add(3_110_400)
    }
    pub fn protocol_version(&self) -> u32 {
        22
    }
    pub fn network_id(&self) -> BytesN<32> {
        BytesN([7u8; 32])
    }
    pub fn timestamp(&self) -> u64 {
        unsafe { TS }
    }
    pub fn sequence(&self) -> u32 {
        unsafe { SEQ }
    }
}
pub struct Events;
impl Events {
    pub fn publish<T: Topics, D: IntoVal<Env, Val>>(&self, t: T, d: D) {
        unsafe {
            if NEV >= ECAP {
                crate::mfail!("MODEL:event capacity");
            }
            let mut o = Buf::new();
            t.ser_topics(&Env, &mut o);
            EV_C[NEV] = cur();
            EV_T[NEV] = o;
            EV_D[NEV] = d.into_val(&Env);
            NEV += 1;
        }
    }
}

pub struct Deployer;
pub struct DeployerWithAddress {
    addr: Address,
    salt: [u8; 32],
}
impl Deployer {
    pub fn update_current_contract_wasm(&self, h: impl Into<BytesN<32>>) {
        let h: BytesN<32> = h.into();
        unsafe {
            if WASM_N >= WCAP {
                crate::mfail!("MODEL:wasm update capacity");
            }
            WASM_C[WASM_N] = cur();
            WASM_H[WASM_N] = h.0;
            WASM_N += 1;
        }
    }
    pub fn with_address(&self, addr: Address, salt: impl Into<BytesN<32>>) -> DeployerWithAddress {
        let s: BytesN<32> = salt.into();
        DeployerWithAddress { addr, salt: s.0 }
    }
    pub fn with_current_contract(&self, salt: impl Into<BytesN<32>>) -> DeployerWithAddress {
        self.with_address(Address(cur()), salt)
    }
}
impl DeployerWithAddress {
    pub fn deployed_address(&self) -> Address {
        crate::model::deployed_address(&self.addr, &self.salt)
    }
    pub fn deploy_v2<A: ConstructorArgs>(&self, wasm_hash: impl Into<BytesN<32>>, args: A) -> Address {
        let h: BytesN<32> = wasm_hash.into();
        let mut o = Buf::new();
        args.ser_args(&Env, &mut o);
        crate::model::deploy(&self.addr, &self.salt, &h.0, &o)
    }
}

pub struct Storage;
impl Storage {
    pub fn instance(&self) -> Instance {
        Instance
    }
    pub fn persistent(&self) -> Persistent {
        Persistent
    }
    pub fn temporary(&self) -> Temporary {
        Temporary
    }
}
pub struct Instance;
pub struct Persistent;
pub struct Temporary;

/// key bytes: [tag, payload..] in a fixed-width array (no intermediate buffer)
fn keybytes(k: &Val) -> (usize, [u8; KW]) {
    let mut a = [0u8; KW];
    a[0] = k.tag;
    if k.tag < T_SYM {
        if KW < 17 {
            crate::mfail!("MODEL:storage key width");
        }
        let w = k.w.to_be_bytes();
        let mut j = 0;
        while j < 16 && j + 1 < KW {
            a[1 + j] = w[j];
            j += 1;
        }
        (17, a)
    } else {
        if k.b.len + 1 > KW {
            crate::mfail!("MODEL:storage key width");
        }
        let mut j = 0;
        while j < k.b.len && j + 1 < KW && j < crate::BCAP {
            a[1 + j] = k.b.d[j];
            j += 1;
        }
        (1 + k.b.len, a)
    }
}
/// Storage is an append-only log: `set`/`remove` append a record at the (path-constant) counter
/// S_N, `get` scans all records and keeps the newest match, accumulating the value on the way so
/// that every array index is a constant.
fn slot_matches(i: usize, c: u32, d: u8, klen: usize, k: &[u8; KW]) -> bool {
    unsafe {
        let mut same = S_C[i] == c && S_D[i] == d && S_KLEN[i] == klen;
        let mut j = 0;
        while j < KW {
            if S_K[i][j] != k[j] {
                same = false;
            }
            j += 1;
        }
        same
    }
}
fn lookup(c: u32, d: u8, k: &Val) -> (bool, Val) {
    let (kl, kb) = keybytes(k);
    let mut present = false;
    let mut tag = 0u8;
    let mut w = 0u128;
    let mut vlen = 0usize;
    let mut vb = [0u8; VW];
    let mut i = 0;
    while i < NSLOT {
        unsafe {
            if i < S_N && slot_matches(i, c, d, kl, &kb) {
                present = S_USED[i];
                tag = S_VTAG[i];
                w = S_VW[i];
                vlen = S_VLEN[i];
                vb = S_VB[i];
            }
        }
        i += 1;
    }
    let mut b = Buf::new();
    let mut j = 0;
    while j < VW && j < crate::BCAP {
        b.d[j] = vb[j];
        j += 1;
    }
    b.len = vlen;
    (present, Val { tag, w, b })
}
fn append(c: u32, d: u8, k: &Val, used: bool, v: &Val) {
    let (kl, kb) = keybytes(k);
    unsafe {
        if S_N >= NSLOT {
            crate::mfail!("MODEL:storage capacity");
        }
        if v.b.len > VW {
            crate::mfail!("MODEL:storage value width");
        }
        let i = S_N;
        S_C[i] = c;
        S_D[i] = d;
        S_KLEN[i] = kl;
        S_K[i] = kb;
        S_USED[i] = used;
        S_VTAG[i] = v.tag;
        S_VW[i] = v.w;
        S_VLEN[i] = v.b.len;
        let mut j = 0;
        while j < VW && j < crate::BCAP {
            S_VB[i][j] = v.b.d[j];
            j += 1;
        }
        S_N += 1;
        S_WRITES += 1;
    }
}
pub(crate) fn raw_get(c: u32, d: u8, k: &Val) -> Option<Val> {
    let (present, v) = lookup(c, d, k);
    if present {
        Some(v)
    } else {
        None
    }
}
pub(crate) fn raw_has(c: u32, d: u8, k: &Val) -> bool {
    lookup(c, d, k).0
}
pub(crate) fn raw_set(c: u32, d: u8, k: &Val, v: &Val) {
    append(c, d, k, true, v)
}
pub(crate) fn raw_remove(c: u32, d: u8, k: &Val) {
    append(c, d, k, false, &Val::VOID)
}
macro_rules! store {
    ($t:ident, $d:expr) => {
        impl $t {
            pub fn get<K: IntoVal<Env, Val>, V: TryFromVal<Env, Val>>(&self, k: &K) -> Option<V> {
                match raw_get(cur(), $d, &k.into_val(&Env)) {
                    Some(v) => Some(V::from_val(&Env, &v)),
                    None => None,
                }
            }
            pub fn has<K: IntoVal<Env, Val>>(&self, k: &K) -> bool {
                raw_has(cur(), $d, &k.into_val(&Env))
            }
            pub fn set<K: IntoVal<Env, Val>, V: IntoVal<Env, Val>>(&self, k: &K, v: &V) {
                raw_set(cur(), $d, &k.into_val(&Env), &v.into_val(&Env))
            }
            pub fn remove<K: IntoVal<Env, Val>>(&self, k: &K) {
                raw_remove(cur(), $d, &k.into_val(&Env))
            }
            pub fn update<K: IntoVal<Env, Val>, V: IntoVal<Env, Val> + TryFromVal<Env, Val>>(&self, k: &K, f: impl FnOnce(Option<V>) -> V) -> V {
                let v = f(self.get(k));
                self.set(k, &v);
                v
            }
        }
    };
}
store!(Instance, 0);
store!(Persistent, 1);
store!(Temporary, 2);
impl Instance {
    pub fn extend_ttl(&self, a: u32, b: u32) {}
}
impl Persistent {
    pub fn extend_ttl<K: IntoVal<Env, Val>>(&self, k: &K, a: u32, b: u32) {}
}
impl Temporary {
    pub fn extend_ttl<K: IntoVal<Env, Val>>(&self, k: &K, a: u32, b: u32) {}
}
