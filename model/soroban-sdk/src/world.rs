//! World state: struct-of-arrays statics, constant-bound loops.  No rollback is modelled: a trap
//! ends the path under Kani, and contract code in this workspace never uses `try_` calls, so the
//! only observer of a failed call is the harness, which treats Err/trap as "transaction reverted".
use crate::buf::Buf;
use crate::val::*;
use crate::{Address, BytesN, ECAP, KW, NSLOT, VW};

pub(crate) static mut S_N: usize = 0;
pub(crate) static mut S_C: [u32; NSLOT] = [0; NSLOT];
pub(crate) static mut S_D: [u8; NSLOT] = [0; NSLOT];
pub(crate) static mut S_USED: [bool; NSLOT] = [false; NSLOT];
pub(crate) static mut S_KLEN: [usize; NSLOT] = [0; NSLOT];
pub(crate) static mut S_K: [[u8; KW]; NSLOT] = [[0; KW]; NSLOT];
pub(crate) static mut S_VTAG: [u8; NSLOT] = [0; NSLOT];
pub(crate) static mut S_VW: [u128; NSLOT] = [0; NSLOT];
pub(crate) static mut S_VLEN: [usize; NSLOT] = [0; NSLOT];
pub(crate) static mut S_VB: [[u8; VW]; NSLOT] = [[0; VW]; NSLOT];
pub(crate) static mut S_WRITES: u32 = 0;

pub(crate) const FCAP: usize = 4;
pub(crate) static mut FRAME: [u32; FCAP] = [0; FCAP];
pub(crate) static mut DEPTH: usize = 0;
pub(crate) static mut TS: u64 = 0;
pub(crate) static mut SEQ: u32 = 0;

pub(crate) static mut NEV: usize = 0;
pub(crate) static mut EV_C: [u32; ECAP] = [0; ECAP];
pub(crate) static mut EV_T: [Buf; ECAP] = [Buf::new(); ECAP];
pub(crate) static mut EV_D: [Val; ECAP] = [Val::VOID; ECAP];

pub(crate) const WCAP: usize = 4;
pub(crate) static mut WASM_N: usize = 0;
pub(crate) static mut WASM_C: [u32; WCAP] = [0; WCAP];
pub(crate) static mut WASM_H: [[u8; 32]; WCAP] = [[0; 32]; WCAP];

pub(crate) fn cur() -> u32 {
    unsafe {
        if DEPTH == 0 || DEPTH > FCAP {
            crate::mfail!("MODEL:no current contract frame");
        }
        FRAME[DEPTH - 1]
    }
}

#[derive(Clone, Debug, PartialEq, Eq)]
pub struct Env;
impl Default for Env {
    fn default() -> Self {
        crate::model::reset();
        Env
    }
}
impl Env {
    pub fn storage(&self) -> Storage {
        Storage
    }
    pub fn crypto(&self) -> crate::crypto::Crypto {
        crate::crypto::Crypto
    }
    pub fn ledger(&self) -> Ledger {
        Ledger
    }
    pub fn events(&self) -> Events {
        Events
    }
    pub fn deployer(&self) -> Deployer {
        Deployer
    }
    pub fn current_contract_address(&self) -> Address {
        Address(cur())
    }
    pub fn as_contract<T>(&self, a: &Address, f: impl FnOnce() -> T) -> T {
        crate::model::with_contract(a, f)
    }
    /// Generic cross-contract call (operators.execute, Upgrader.upgrade).  Routed through the
    /// non-generic `model::invoke_raw`, which harnesses replace with a probe (`#[kani::stub]`).
    pub fn invoke_contract<T: TryFromVal<Env, Val>>(&self, a: &Address, f: &crate::Symbol, args: crate::Vec<Val>) -> T {
        let r = crate::model::invoke_raw(a, f, args);
        T::from_val(self, &r)
    }
}
pub struct Ledger;
impl Ledger {
    pub fn timestamp(&self) -> u64 {
        unsafe { TS }
    }
    pub fn sequence(&self) -> u32 {
        unsafe { SEQ }
    }
}
pub struct Events;
impl Events {
    pub fn publish<T: Topics, D: IntoVal<Env, Val>>(&self, t: T, d: D) {
        unsafe {
            if NEV >= ECAP {
                crate::mfail!("MODEL:event capacity");
            }
            let mut o = Buf::new();
            t.ser_topics(&Env, &mut o);
            EV_C[NEV] = cur();
            EV_T[NEV] = o;
            EV_D[NEV] = d.into_val(&Env);
            NEV += 1;
        }
    }
}

pub struct Deployer;
pub struct DeployerWithAddress {
    addr: Address,
    salt: [u8; 32],
}
impl Deployer {
    pub fn update_current_contract_wasm(&self, h: impl Into<BytesN<32>>) {
        let h: BytesN<32> = h.into();
        unsafe {
            if WASM_N >= WCAP {
                crate::mfail!("MODEL:wasm update capacity");
            }
            WASM_C[WASM_N] = cur();
            WASM_H[WASM_N] = h.0;
            WASM_N += 1;
        }
    }
    pub fn with_address(&self, addr: Address, salt: impl Into<BytesN<32>>) -> DeployerWithAddress {
        let s: BytesN<32> = salt.into();
        DeployerWithAddress { addr, salt: s.0 }
    }
    pub fn with_current_contract(&self, salt: impl Into<BytesN<32>>) -> DeployerWithAddress {
        self.with_address(Address(cur()), salt)
    }
}
impl DeployerWithAddress {
    pub fn deployed_address(&self) -> Address {
        crate::model::deployed_address(&self.addr, &self.salt)
    }
    pub fn deploy_v2<A: ConstructorArgs>(&self, wasm_hash: impl Into<BytesN<32>>, args: A) -> Address {
        let h: BytesN<32> = wasm_hash.into();
        let mut o = Buf::new();
        args.ser_args(&Env, &mut o);
        crate::model::deploy(&self.addr, &self.salt, &h.0, &o)
    }
}

pub struct Storage;
impl Storage {
    pub fn instance(&self) -> Instance {
        Instance
    }
    pub fn persistent(&self) -> Persistent {
        Persistent
    }
    pub fn temporary(&self) -> Temporary {
        Temporary
    }
}
pub struct Instance;
pub struct Persistent;
pub struct Temporary;

/// key bytes = serialisation of the key value, fixed width KW
fn keybytes(k: &Val) -> (usize, [u8; KW]) {
    let mut o = Buf::new();
    crate::buf::Ser::ser(k, &mut o);
    if o.len > KW {
        crate::mfail!("MODEL:storage key width");
    }
    let mut a = [0u8; KW];
    let mut j = 0;
    while j < KW && j < crate::BCAP {
        a[j] = o.d[j];
        j += 1;
    }
    (o.len, a)
}
/// returns NSLOT when absent
fn sfind(c: u32, d: u8, klen: usize, k: &[u8; KW]) -> usize {
    let mut found = NSLOT;
    let mut i = 0;
    while i < NSLOT {
        unsafe {
            if i < S_N && found == NSLOT && S_C[i] == c && S_D[i] == d && S_KLEN[i] == klen {
                let mut same = true;
                let mut j = 0;
                while j < KW {
                    if S_K[i][j] != k[j] {
                        same = false;
                    }
                    j += 1;
                }
                if same {
                    found = i;
                }
            }
        }
        i += 1;
    }
    found
}
fn sload(i: usize) -> Val {
    unsafe {
        let mut b = Buf::new();
        let mut j = 0;
        while j < VW && j < crate::BCAP {
            b.d[j] = S_VB[i][j];
            j += 1;
        }
        b.len = S_VLEN[i];
        Val { tag: S_VTAG[i], w: S_VW[i], b }
    }
}
fn sstore(i: usize, v: &Val) {
    unsafe {
        if v.b.len > VW {
            crate::mfail!("MODEL:storage value width");
        }
        S_USED[i] = true;
        S_VTAG[i] = v.tag;
        S_VW[i] = v.w;
        S_VLEN[i] = v.b.len;
        let mut j = 0;
        while j < VW && j < crate::BCAP {
            S_VB[i][j] = v.b.d[j];
            j += 1;
        }
        S_WRITES += 1;
    }
}
pub(crate) fn raw_get(c: u32, d: u8, k: &Val) -> Option<Val> {
    let (kl, kb) = keybytes(k);
    let i = sfind(c, d, kl, &kb);
    if i < NSLOT && unsafe { S_USED[i] } {
        Some(sload(i))
    } else {
        None
    }
}
pub(crate) fn raw_has(c: u32, d: u8, k: &Val) -> bool {
    let (kl, kb) = keybytes(k);
    let i = sfind(c, d, kl, &kb);
    i < NSLOT && unsafe { S_USED[i] }
}
pub(crate) fn raw_set(c: u32, d: u8, k: &Val, v: &Val) {
    let (kl, kb) = keybytes(k);
    let mut i = sfind(c, d, kl, &kb);
    if i == NSLOT {
        unsafe {
            if S_N >= NSLOT {
                crate::mfail!("MODEL:storage capacity");
            }
            i = S_N;
            S_N += 1;
            S_C[i] = c;
            S_D[i] = d;
            S_KLEN[i] = kl;
            let mut j = 0;
            while j < KW {
                S_K[i][j] = kb[j];
                j += 1;
            }
        }
    }
    sstore(i, v);
}
pub(crate) fn raw_remove(c: u32, d: u8, k: &Val) {
    let (kl, kb) = keybytes(k);
    let i = sfind(c, d, kl, &kb);
    if i < NSLOT {
        unsafe {
            S_USED[i] = false;
            S_WRITES += 1;
        }
    }
}
macro_rules! store {
    ($t:ident, $d:expr) => {
        impl $t {
            pub fn get<K: IntoVal<Env, Val>, V: TryFromVal<Env, Val>>(&self, k: &K) -> Option<V> {
                match raw_get(cur(), $d, &k.into_val(&Env)) {
                    Some(v) => Some(V::from_val(&Env, &v)),
                    None => None,
                }
            }
            pub fn has<K: IntoVal<Env, Val>>(&self, k: &K) -> bool {
                raw_has(cur(), $d, &k.into_val(&Env))
            }
            pub fn set<K: IntoVal<Env, Val>, V: IntoVal<Env, Val>>(&self, k: &K, v: &V) {
                raw_set(cur(), $d, &k.into_val(&Env), &v.into_val(&Env))
            }
            pub fn remove<K: IntoVal<Env, Val>>(&self, k: &K) {
                raw_remove(cur(), $d, &k.into_val(&Env))
            }
            pub fn update<K: IntoVal<Env, Val>, V: IntoVal<Env, Val> + TryFromVal<Env, Val>>(&self, k: &K, f: impl FnOnce(Option<V>) -> V) -> V {
                let v = f(self.get(k));
                self.set(k, &v);
                v
            }
        }
    };
}
store!(Instance, 0);
store!(Persistent, 1);
store!(Temporary, 2);
impl Instance {
    pub fn extend_ttl(&self, a: u32, b: u32) {}
}
impl Persistent {
    pub fn extend_ttl<K: IntoVal<Env, Val>>(&self, k: &K, a: u32, b: u32) {}
}
impl Temporary {
    pub fn extend_ttl<K: IntoVal<Env, Val>>(&self, k: &K, a: u32, b: u32) {}
}
