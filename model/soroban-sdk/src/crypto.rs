//! Ideal hash (Dolev-Yao style free constructor) and signature oracle.
use crate::buf::Buf;
use crate::val::*;
use crate::{Bytes, BytesN, Env, BCAP, HCAP, OCAP};

pub struct Crypto;
#[derive(Clone, Debug, PartialEq, Eq)]
pub struct Hash<const N: usize>(pub BytesN<N>);
impl<const N: usize> Hash<N> {
    pub fn to_bytes(&self) -> BytesN<N> {
        self.0.clone()
    }
    pub fn to_array(&self) -> [u8; N] {
        self.0.to_array()
    }
}
impl<const N: usize> From<Hash<N>> for BytesN<N> {
    fn from(h: Hash<N>) -> BytesN<N> {
        h.0
    }
}
impl<const N: usize> From<Hash<N>> for Bytes {
    fn from(h: Hash<N>) -> Bytes {
        h.0.into()
    }
}
impl<const N: usize> From<Hash<N>> for [u8; N] {
    fn from(h: Hash<N>) -> [u8; N] {
        h.0 .0
    }
}
impl<const N: usize> IntoVal<Env, Val> for Hash<N> {
    fn into_val(&self, e: &Env) -> Val {
        self.0.into_val(e)
    }
}

/// First byte of every ideal-hash output; harness-made "arbitrary" 32-byte values avoid it.
pub const HASH_MARK: u8 = 0xEE;
pub static mut H_N: usize = 0;
static mut H_LEN: [usize; HCAP] = [0; HCAP];
static mut H_IN: [[u8; BCAP]; HCAP] = [[0; BCAP]; HCAP];
static mut H_ID: [u8; HCAP] = [0; HCAP];

/// Ideal Keccak-256: functional and collision-free by construction (the output names the
/// equivalence class of the input among all inputs hashed so far), nothing else.
/// Append-always memo, constant-bound loops.
pub fn ideal_hash(inp: &Buf) -> [u8; 32] {
    unsafe {
        if H_N >= HCAP {
            crate::mfail!("MODEL:hash memo capacity");
        }
        let mut id = H_N as u8;
        let mut hit = false;
        let mut i = 0;
        while i < HCAP {
            if i < H_N && !hit && H_LEN[i] == inp.len {
                let mut same = true;
                let mut j = 0;
                while j < inp.len && j < BCAP {
                    if H_IN[i][j] != inp.d[j] {
                        same = false;
                    }
                    j += 1;
                }
                if same {
                    id = H_ID[i];
                    hit = true;
                }
            }
            i += 1;
        }
        H_LEN[H_N] = inp.len;
        let mut j = 0;
        while j < inp.len && j < BCAP {
            H_IN[H_N][j] = inp.d[j];
            j += 1;
        }
        H_ID[H_N] = id;
        H_N += 1;
        let mut out = [0u8; 32];
        out[0] = HASH_MARK;
        out[1] = id + 1;
        out
    }
}
pub fn hash_count() -> usize {
    unsafe { H_N }
}

// ---- signature oracle: presets (harness-chosen triples) + log of every query
pub static mut OP_N: usize = 0;
static mut OP_PK: [[u8; 32]; OCAP] = [[0; 32]; OCAP];
static mut OP_MSG: [[u8; 32]; OCAP] = [[0; 32]; OCAP];
static mut OP_SIG: [[u8; 64]; OCAP] = [[0; 64]; OCAP];
static mut OP_RES: [bool; OCAP] = [false; OCAP];
pub static mut O_N: usize = 0;
static mut O_PK: [[u8; 32]; OCAP] = [[0; 32]; OCAP];
static mut O_MSG: [[u8; 32]; OCAP] = [[0; 32]; OCAP];
static mut O_SIG: [[u8; 64]; OCAP] = [[0; 64]; OCAP];
static mut O_RES: [bool; OCAP] = [false; OCAP];

fn eq32(a: &[u8; 32], b: &[u8; 32]) -> bool {
    let mut s = true;
    let mut i = 0;
    while i < 32 {
        if a[i] != b[i] {
            s = false;
        }
        i += 1;
    }
    s
}
fn eq64(a: &[u8; 64], b: &[u8; 64]) -> bool {
    let mut s = true;
    let mut i = 0;
    while i < 64 {
        if a[i] != b[i] {
            s = false;
        }
        i += 1;
    }
    s
}
/// The oracle's answer on (pk, msg, sig) is `res`.
pub fn oracle_preset(pk: &[u8; 32], msg: &[u8; 32], sig: &[u8; 64], res: bool) {
    unsafe {
        if OP_N >= OCAP {
            crate::mfail!("MODEL:oracle preset capacity");
        }
        OP_PK[OP_N] = *pk;
        OP_MSG[OP_N] = *msg;
        OP_SIG[OP_N] = *sig;
        OP_RES[OP_N] = res;
        OP_N += 1;
    }
}
/// true iff the code under test asked the oracle about exactly this triple and was told "valid"
pub fn oracle_verified(pk: &[u8; 32], msg: &[u8; 32], sig: &[u8; 64]) -> bool {
    let mut r = false;
    let mut i = 0;
    while i < OCAP {
        unsafe {
            if i < O_N && O_RES[i] && eq32(&O_PK[i], pk) && eq32(&O_MSG[i], msg) && eq64(&O_SIG[i], sig) {
                r = true;
            }
        }
        i += 1;
    }
    r
}
pub fn oracle_queries() -> usize {
    unsafe { O_N }
}
fn fresh_bool() -> bool {
    #[cfg(kani)]
    {
        kani::any()
    }
    #[cfg(not(kani))]
    {
        false
    }
}
/// Consistent, otherwise arbitrary predicate.
pub fn oracle(pk: &[u8; 32], msg: &[u8; 32], sig: &[u8; 64]) -> bool {
    unsafe {
        let mut res = fresh_bool();
        let mut hit = false;
        let mut i = 0;
        while i < OCAP {
            if i < OP_N && !hit && eq32(&OP_PK[i], pk) && eq32(&OP_MSG[i], msg) && eq64(&OP_SIG[i], sig) {
                res = OP_RES[i];
                hit = true;
            }
            i += 1;
        }
        i = 0;
        while i < OCAP {
            if i < O_N && !hit && eq32(&O_PK[i], pk) && eq32(&O_MSG[i], msg) && eq64(&O_SIG[i], sig) {
                res = O_RES[i];
                hit = true;
            }
            i += 1;
        }
        if O_N >= OCAP {
            crate::mfail!("MODEL:oracle log capacity");
        }
        O_PK[O_N] = *pk;
        O_MSG[O_N] = *msg;
        O_SIG[O_N] = *sig;
        O_RES[O_N] = res;
        O_N += 1;
        res
    }
}

impl Crypto {
    pub fn keccak256(&self, b: &Bytes) -> Hash<32> {
        Hash(BytesN(ideal_hash(&b.0)))
    }
    /// another ideal hash, domain-separated from keccak256 by a leading tag byte in the memo
    pub fn sha256(&self, b: &Bytes) -> Hash<32> {
        let mut t = Buf::new();
        t.push(0x53);
        t.extend_buf(&b.0);
        let mut o = ideal_hash(&t);
        o[2] = 0x53;
        Hash(BytesN(o))
    }
    pub fn ed25519_verify(&self, pk: &BytesN<32>, msg: &Bytes, sig: &BytesN<64>) {
        if msg.0.len != 32 {
            crate::mfail!("MODEL:ed25519 message is not a 32-byte digest");
        }
        let mut m = [0u8; 32];
        let mut i = 0;
        while i < 32 && i < BCAP {
            m[i] = msg.0.d[i];
            i += 1;
        }
        if !oracle(&pk.0, &m, &sig.0) {
            crate::mtrap!("TRAP:ed25519_verify failed");
        }
    }
}
