//! Harness-facing side of the model host: reset, frames, authorisations, traps, cross-contract hooks,
//! observation of events / storage / deployments, and nondeterministic value builders.
use crate::buf::Buf;
use crate::val::*;
use crate::world::*;
use crate::{Address, Bytes, BytesN, String, Symbol, Vec, BCAP, ECAP, LONGB, SCAP};

pub const NPRINC: usize = 8;
static mut AUTH: [bool; NPRINC] = [false; NPRINC];
static mut AUTH_REQ: [u32; NPRINC] = [0; NPRINC];
static mut AUTH_ARGS: [bool; NPRINC] = [false; NPRINC];
static mut AUTH_ARGS_REQ: [u32; NPRINC] = [0; NPRINC];

// ------------------------------------------------------------------ failure classes
/// A reachable trap: the transaction is rejected.  Under Kani the path ends here.
/// (literal panics so that Kani keeps the message text)
#[macro_export]
macro_rules! mtrap {
    ($m:literal) => {
        panic!($m)
    };
}
/// The model's bounds were exceeded: the run is INCONCLUSIVE, never a pass.
#[macro_export]
macro_rules! mfail {
    ($m:literal) => {
        panic!($m)
    };
}
/// Used by harness-side spec stubs (harnesses live in no_std crates, where panic messages are lost).
#[inline(never)]
pub fn spec_trap() -> ! {
    panic!("TRAP:spec stub: the callee contract rejects this call")
}
#[inline(never)]
pub fn trap_with_error(e: crate::Error) -> ! {
    panic!("TRAP:panic_with_error")
}

// ------------------------------------------------------------------ reset / frames / ledger
pub fn reset() {
    unsafe {
        S_N = 0;
        S_WRITES = 0;
        DEPTH = 0;
        TS = 0;
        SEQ = 0;
        NEV = 0;
        WASM_N = 0;
        crate::crypto::H_N = 0;
        crate::crypto::O_N = 0;
        crate::crypto::OP_N = 0;
        DEP_N = 0;
        let mut i = 0;
        while i < NPRINC {
            AUTH[i] = false;
            AUTH_REQ[i] = 0;
            AUTH_ARGS[i] = false;
            AUTH_ARGS_REQ[i] = 0;
            i += 1;
        }
    }
}
pub fn with_contract<T>(a: &Address, f: impl FnOnce() -> T) -> T {
    unsafe {
        if DEPTH >= FCAP {
            crate::mfail!("MODEL:frame depth");
        }
        FRAME[DEPTH] = a.0;
        DEPTH += 1;
    }
    let r = f();
    unsafe {
        DEPTH -= 1;
    }
    r
}
pub fn set_ledger(ts: u64, seq: u32) {
    unsafe {
        TS = ts;
        SEQ = seq;
    }
}

// ------------------------------------------------------------------ authorisation
/// `ok` = this principal's authorisation covers the calls reached in this transaction.
pub fn set_auth(a: &Address, ok: bool) {
    if (a.0 as usize) >= NPRINC {
        crate::mfail!("MODEL:principal universe");
    }
    unsafe { AUTH[a.0 as usize] = ok }
}
/// no principal's authorisation (standard or custom-argument) is available from here on
pub fn clear_auths() {
    let mut i = 0;
    while i < NPRINC {
        unsafe {
            AUTH[i] = false;
            AUTH_ARGS[i] = false;
        }
        i += 1;
    }
}
pub fn auth_of(a: &Address) -> bool {
    if (a.0 as usize) >= NPRINC {
        crate::mfail!("MODEL:principal universe");
    }
    unsafe { AUTH[a.0 as usize] }
}
/// number of `require_auth` calls made on this principal so far
pub fn auth_required(a: &Address) -> u32 {
    if (a.0 as usize) >= NPRINC {
        crate::mfail!("MODEL:principal universe");
    }
    unsafe { AUTH_REQ[a.0 as usize] }
}
pub(crate) fn require_auth_for_args_impl(id: u32) {
    if (id as usize) >= NPRINC {
        crate::mfail!("MODEL:principal universe");
    }
    unsafe {
        AUTH_ARGS_REQ[id as usize] += 1;
        if !AUTH_ARGS[id as usize] {
            crate::mtrap!("TRAP:require_auth_for_args failed");
        }
    }
}
/// number of custom-argument authorisation demands made on this principal
pub fn auth_for_args_required(a: &Address) -> u32 {
    unsafe { AUTH_ARGS_REQ[(a.0 as usize) % NPRINC] }
}
pub(crate) fn require_auth_impl(id: u32) {
    if (id as usize) >= NPRINC {
        crate::mfail!("MODEL:principal universe");
    }
    unsafe {
        AUTH_REQ[id as usize] += 1;
        if !AUTH[id as usize] {
            crate::mtrap!("TRAP:require_auth failed");
        }
    }
}

// ------------------------------------------------------------------ cross-contract hooks
/// Generic `env.invoke_contract`.  Harnesses stub this with a probe.
#[inline(never)]
pub fn invoke_raw(a: &Address, f: &Symbol, args: Vec<Val>) -> Val {
    crate::mfail!("MODEL:unhandled invoke_contract (no probe installed)")
}
/// Called by every generated interface client whose hook has not been stubbed.
#[inline(never)]
pub fn unhandled_call(what: &'static str) -> ! {
    panic!("MODEL:unhandled cross-contract call (no spec stub installed)")
}

/// `try_` client calls and `try_invoke_contract`: whether the callee fails is a symbolic choice.
/// how a failing callee fails, as seen by a `try_` call: a host error, a contract error code, an abort, or an
/// error code the caller's error type cannot represent — all symbolic
pub fn nondet_callee_error() -> Result<crate::Error, crate::InvokeError> {
    #[cfg(kani)]
    {
        let kind: u8 = kani::any();
        let code: u32 = kani::any();
        match kind & 3 {
            0 => Ok(crate::Error::host(code)),
            1 => Ok(crate::Error::from_contract_error(code)),
            2 => Err(crate::InvokeError::Abort),
            _ => Err(crate::InvokeError::Contract(code)),
        }
    }
    #[cfg(not(kani))]
    {
        Err(crate::InvokeError::Abort)
    }
}
/// the same for `Env::try_invoke_contract`, whose error type the model cannot construct: abort or an unconvertible code
pub fn nondet_invoke_error() -> crate::InvokeError {
    #[cfg(kani)]
    {
        if kani::any() {
            crate::InvokeError::Abort
        } else {
            crate::InvokeError::Contract(kani::any())
        }
    }
    #[cfg(not(kani))]
    {
        crate::InvokeError::Abort
    }
}
pub fn nondet_u64() -> u64 {
    #[cfg(kani)]
    {
        kani::any()
    }
    #[cfg(not(kani))]
    {
        0
    }
}
pub fn nondet_u8() -> u8 {
    #[cfg(kani)]
    {
        kani::any()
    }
    #[cfg(not(kani))]
    {
        0
    }
}
pub fn assume(_c: bool) {
    #[cfg(kani)]
    kani::assume(_c);
}
pub fn nondet_callee_failure() -> bool {
    #[cfg(kani)]
    {
        kani::any()
    }
    #[cfg(not(kani))]
    {
        false
    }
}
pub fn u128_be_trim(x: u128) -> [u8; 16] {
    x.to_be_bytes()
}

// ------------------------------------------------------------------ deployer
pub const DCAP: usize = 2;
pub static mut DEP_N: usize = 0;
pub static mut DEP_BY: [u32; DCAP] = [0; DCAP];
pub static mut DEP_SALT: [[u8; 32]; DCAP] = [[0; 32]; DCAP];
pub static mut DEP_WASM: [[u8; 32]; DCAP] = [[0; 32]; DCAP];
pub static mut DEP_ARGS: [Buf; DCAP] = [Buf::new(); DCAP];
pub static mut DEP_ADDR: [u32; DCAP] = [0; DCAP];
/// Deterministic, injective address derivation from (deployer, salt).  Harnesses stub this when they
/// want a particular numbering; the default takes the two low salt bytes.
#[inline(never)]
pub fn deployed_address(deployer: &Address, salt: &[u8; 32]) -> Address {
    Address(0x1000_0000 | (deployer.0 << 16) | ((salt[0] as u32) << 8) | salt[1] as u32)
}
/// `deploy_v2`: records the deployment; the constructor is run by the harness-provided stub of
/// `run_constructor` (default: nothing).  Fails if the address is already taken.
pub fn deploy(deployer: &Address, salt: &[u8; 32], wasm: &[u8; 32], args: &Buf) -> Address {
    let addr = deployed_address(deployer, salt);
    unsafe {
        let mut i = 0;
        while i < DCAP {
            if i < DEP_N && DEP_ADDR[i] == addr.0 {
                crate::mtrap!("TRAP:contract already exists at this address");
            }
            i += 1;
        }
        if contract_exists(&addr) {
            crate::mtrap!("TRAP:contract already exists at this address");
        }
        if DEP_N >= DCAP {
            crate::mfail!("MODEL:deploy capacity");
        }
        DEP_BY[DEP_N] = deployer.0;
        DEP_SALT[DEP_N] = *salt;
        DEP_WASM[DEP_N] = *wasm;
        DEP_ARGS[DEP_N] = *args;
        DEP_ADDR[DEP_N] = addr.0;
        DEP_N += 1;
    }
    run_constructor(&addr, wasm, args);
    addr
}
/// pre-existing contracts (harnesses stub this to make addresses "taken")
#[inline(never)]
pub fn contract_exists(a: &Address) -> bool {
    false
}
#[inline(never)]
pub fn run_constructor(addr: &Address, wasm: &[u8; 32], args: &Buf) {}

// ------------------------------------------------------------------ observation
pub fn events_len() -> usize {
    unsafe { NEV }
}
pub fn event_contract(i: usize) -> Address {
    if i >= ECAP {
        crate::mfail!("MODEL:event index");
    }
    unsafe { Address(EV_C[i]) }
}
pub fn event_topics(i: usize) -> Buf {
    if i >= ECAP {
        crate::mfail!("MODEL:event index");
    }
    unsafe { EV_T[i] }
}
pub fn event_data(i: usize) -> Val {
    if i >= ECAP {
        crate::mfail!("MODEL:event index");
    }
    unsafe { EV_D[i] }
}
pub fn topics_of<T: Topics>(t: &T) -> Buf {
    let mut o = Buf::new();
    t.ser_topics(&crate::Env, &mut o);
    o
}
pub fn args_of<T: ConstructorArgs>(t: &T) -> Buf {
    let mut o = Buf::new();
    t.ser_args(&crate::Env, &mut o);
    o
}
pub fn val_of<T: IntoVal<crate::Env, Val>>(t: &T) -> Val {
    t.into_val(&crate::Env)
}
/// The storage key value of a `#[contracttype]` unit enum variant (for key types that are private
/// to another crate): [enum marker, fnv16(variant name)] — must mirror sdk-macros::contracttype.
pub fn enum_unit_key(variant: &str) -> Val {
    let mut h: u32 = 0x811c9dc5;
    let b = variant.as_bytes();
    let mut i = 0;
    while i < b.len() {
        h ^= b[i] as u32;
        h = h.wrapping_mul(0x01000193);
        i += 1;
    }
    let x = (h ^ (h >> 16)) & 0xffff;
    let mut o = Buf::new();
    o.push(0xEB);
    o.push(0x90);
    o.push((x >> 8) as u8);
    o.push((x & 0xff) as u8);
    Val::bufv(T_SER, o)
}
/// number of storage writes/removes so far (all contracts)
pub fn storage_writes() -> u32 {
    unsafe { S_WRITES }
}
pub fn wasm_updates() -> usize {
    unsafe { WASM_N }
}
pub fn wasm_update(i: usize) -> (Address, [u8; 32]) {
    if i >= WCAP {
        crate::mfail!("MODEL:wasm index");
    }
    unsafe { (Address(WASM_C[i]), WASM_H[i]) }
}
/// raw storage access on behalf of a contract (harness seeding / observation), durability 0/1/2
pub fn storage_get(c: &Address, d: u8, k: &Val) -> Option<Val> {
    raw_get(c.0, d, k)
}
pub fn storage_has(c: &Address, d: u8, k: &Val) -> bool {
    raw_has(c.0, d, k)
}
pub fn storage_set(c: &Address, d: u8, k: &Val, v: &Val) {
    raw_set(c.0, d, k, v)
}
/// Seeds the entry only if `cond`; the record is appended either way (under an unused contract id
/// when `!cond`) so that the storage log counter stays a constant for the symbolic executor.
pub fn storage_set_if(cond: bool, c: &Address, d: u8, k: &Val, v: &Val) {
    raw_set(if cond { c.0 } else { 0xFFFF_FFF0 }, d, k, v)
}

// ------------------------------------------------------------------ nondeterministic builders
#[cfg(kani)]
pub mod any {
    use super::*;
    /// 32-byte value with `nsym` symbolic leading bytes, rest zero.  Byte 0 never equals the
    /// ideal-hash marker, so the value is not in the range of `keccak256`.
    pub fn b32(nsym: usize) -> BytesN<32> {
        let mut a = [0u8; 32];
        let mut i = 0;
        while i < nsym && i < 32 {
            a[i] = kani::any();
            i += 1;
        }
        kani::assume(a[0] != crate::crypto::HASH_MARK);
        BytesN(a)
    }
    pub fn b64(nsym: usize) -> BytesN<64> {
        let mut a = [0u8; 64];
        let mut i = 0;
        while i < nsym && i < 64 {
            a[i] = kani::any();
            i += 1;
        }
        BytesN(a)
    }
    /// string of symbolic length <= maxlen with symbolic bytes (zero padded)
    pub fn string(maxlen: usize) -> String {
        let mut s = String::empty();
        let n: usize = kani::any();
        kani::assume(n <= maxlen && n <= SCAP);
        let mut i = 0;
        while i < SCAP {
            if i < maxlen {
                let b: u8 = kani::any();
                if i < n {
                    s.d[i] = b;
                }
            }
            i += 1;
        }
        s.len = n;
        // keep clear of the two reserved address encodings
        kani::assume(!(n >= 1 && (s.d[0] == 0xFF || s.d[0] == 0xFE)));
        s
    }
    /// string of exactly `n` symbolic bytes
    pub fn string_exact(n: usize) -> String {
        let mut s = String::empty();
        let mut i = 0;
        while i < SCAP {
            if i < n {
                s.d[i] = kani::any();
            }
            i += 1;
        }
        s.len = n;
        kani::assume(!(n >= 1 && (s.d[0] == 0xFF || s.d[0] == 0xFE)));
        s
    }
    /// byte string of exactly `n` symbolic bytes
    pub fn bytes_exact(n: usize) -> Bytes {
        let mut b = Buf::new();
        let mut i = 0;
        while i < BCAP {
            if i < n {
                b.d[i] = kani::any();
            }
            i += 1;
        }
        b.len = n;
        kani::assume(LONGB == 0 || n < 1 || b.d[0] != crate::types::LONG_MARK[0]);
        Bytes(b)
    }
    /// abstract long byte string: any length in (BCAP, u32::MAX], opaque content (profile switch LONGB=1)
    pub fn bytes_long() -> Bytes {
        if LONGB == 0 {
            crate::mfail!("MODEL:long byte strings are not enabled in this profile");
        }
        let len: u32 = kani::any();
        kani::assume(len as usize > BCAP);
        Bytes::make_long(len, kani::any())
    }
    /// byte string of symbolic length <= maxlen
    pub fn bytes(maxlen: usize) -> Bytes {
        let n: usize = kani::any();
        kani::assume(n <= maxlen && n <= BCAP);
        let mut b = Buf::new();
        let mut i = 0;
        while i < BCAP {
            if i < maxlen {
                let x: u8 = kani::any();
                if i < n {
                    b.d[i] = x;
                }
            }
            i += 1;
        }
        b.len = n;
        kani::assume(LONGB == 0 || n < 1 || b.d[0] != crate::types::LONG_MARK[0]);
        Bytes(b)
    }
    /// principal with id in 1..=max
    pub fn address(max: u32) -> Address {
        let id: u32 = kani::any();
        kani::assume(id >= 1 && id <= max && (id as usize) < NPRINC);
        Address(id)
    }
    /// arbitrary authorisation set over principals 0..NPRINC
    pub fn auths() {
        let mut i = 0;
        while i < NPRINC {
            let b: bool = kani::any();
            set_auth(&Address(i as u32), b);
            unsafe {
                AUTH_ARGS[i] = kani::any();
            }
            i += 1;
        }
    }
}
