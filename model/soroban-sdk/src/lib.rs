//! MODEL of soroban-sdk 22.0.2 for bounded model checking of the axelar-cgp-soroban contracts.
//!
//! Same crate name, module paths, type names and method signatures as the subset of the real SDK
//! the workspace uses; the host behind them is a small deterministic model written for CBMC:
//! no heap, no recursion, inline fixed-capacity buffers, flat `Val`, struct-of-arrays world state,
//! constant-bound loops.  See /verif/DESIGN.md §3.2 for the contract of every modelled facility.
#![allow(dead_code, unused_variables, static_mut_refs, clippy::all)]
extern crate self as soroban_sdk;
pub use vsdk_macros::{contract, contractclient, contracterror, contractimpl, contracttype};

include!(concat!(env!("OUT_DIR"), "/caps.rs"));

mod buf;
mod val;
mod world;
mod types;
mod vecm;
pub mod crypto;
pub mod xdr;
pub mod token;
pub mod model;
pub mod unwrap;
#[cfg(feature = "testutils")]
pub mod testutils;

pub use buf::{Buf, De, MDefault, Rd, Ser};
pub use types::{Address, Bytes, BytesN, String, Symbol};
pub use val::{ConstructorArgs, ConversionError, Error, FromVal, IntoVal, InvokeError, Topics, TryFromVal, TryIntoVal, Val};
pub use val::{T_ADDR, T_BOOL, T_BYTES, T_I128, T_SER, T_STR, T_SYM, T_U128, T_U32, T_U64, T_VOID};
pub use vecm::{Vec, VecIter};
pub use world::{Deployer, DeployerWithAddress, Env, Events, Instance, Ledger, Persistent, Storage, Temporary};

pub mod __rt {
    pub use std::vec;
}

#[macro_export]
macro_rules! symbol_short {
    ($s:literal) => {
        $crate::Symbol::short($s)
    };
}
#[macro_export]
macro_rules! vec {
    ($e:expr $(,)?) => { $crate::Vec::new($e) };
    ($e:expr, $($x:expr),+ $(,)?) => { $crate::Vec::from_array($e, [$($x),+]) };
}
#[macro_export]
macro_rules! panic_with_error {
    ($e:expr, $err:expr) => {{
        $crate::model::trap_with_error($crate::Error::from($err))
    }};
}
#[macro_export]
macro_rules! assert_with_error {
    ($e:expr, $c:expr, $err:expr) => {{
        if !($c) {
            $crate::panic_with_error!($e, $err)
        }
    }};
}

/// `log!` is a no-op in the model (diagnostics are not observable behaviour).
#[macro_export]
macro_rules! log {
    ($($t:tt)*) => {{}};
}
#[macro_export]
macro_rules! bytes {
    ($e:expr, $x:literal) => {
        $crate::Bytes::from_slice($e, &$crate::model::u128_be_trim($x as u128))
    };
}
