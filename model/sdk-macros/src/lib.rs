//! Stand-ins for the soroban-sdk attribute macros, generating what the axelar workspace relies on,
//! against the model host in ../soroban-sdk.
use proc_macro::TokenStream;
use quote::{format_ident, quote};
use syn::{parse_macro_input, Data, DeriveInput, Fields, FnArg, ItemTrait, Pat, TraitItem, Type};

fn fnv16(s: &str) -> (u8, u8) {
    let mut h: u32 = 0x811c9dc5;
    for b in s.bytes() {
        h ^= b as u32;
        h = h.wrapping_mul(0x01000193);
    }
    let x = (h ^ (h >> 16)) & 0xffff;
    ((x >> 8) as u8, (x & 0xff) as u8)
}

#[proc_macro_attribute]
pub fn contracttype(_attr: TokenStream, item: TokenStream) -> TokenStream {
    let input = parse_macro_input!(item as DeriveInput);
    let name = &input.ident;
    // Like real XDR (ScMap keyed by field names / ScVec led by the variant-name symbol), the type's
    // own name does not take part: structs are tagged by their field names, enum values by the
    // variant name.
    let (t0, t1) = match &input.data {
        Data::Struct(s) => fnv16(&s.fields.iter().map(|f| f.ident.as_ref().map(|i| i.to_string()).unwrap_or_default()).collect::<Vec<_>>().join(",")),
        _ => (0xEB, 0x90),
    };
    let (ser_body, de_body, def_body) = match &input.data {
        Data::Struct(s) => match &s.fields {
            Fields::Named(f) => {
                let names: Vec<_> = f.named.iter().map(|x| x.ident.clone().unwrap()).collect();
                (
                    quote! { #( soroban_sdk::Ser::ser(&self.#names, o); )* },
                    quote! { Some(Self { #( #names: soroban_sdk::De::de(r)? ),* }) },
                    quote! { Self { #( #names: soroban_sdk::MDefault::mdefault() ),* } },
                )
            }
            Fields::Unnamed(u) => {
                let idx: Vec<_> = (0..u.unnamed.len()).map(syn::Index::from).collect();
                let de: Vec<_> = idx.iter().map(|_| quote! { soroban_sdk::De::de(r)? }).collect();
                let df: Vec<_> = idx.iter().map(|_| quote! { soroban_sdk::MDefault::mdefault() }).collect();
                (
                    quote! { #( soroban_sdk::Ser::ser(&self.#idx, o); )* },
                    quote! { Some(Self( #(#de),* )) },
                    quote! { Self( #(#df),* ) },
                )
            }
            Fields::Unit => (quote! {}, quote! { Some(Self) }, quote! { Self }),
        },
        Data::Enum(en) => {
            let is_int = !en.variants.is_empty() && en.variants.iter().all(|v| v.discriminant.is_some());
            let first = en.variants.first().expect("empty enum");
            let fi = &first.ident;
            let def = match &first.fields {
                Fields::Unit => quote! { #name::#fi },
                Fields::Unnamed(u) => {
                    let df: Vec<_> = u.unnamed.iter().map(|_| quote! { soroban_sdk::MDefault::mdefault() }).collect();
                    quote! { #name::#fi( #(#df),* ) }
                }
                _ => panic!("unsupported enum variant"),
            };
            if is_int {
                let vs: Vec<_> = en.variants.iter().map(|v| v.ident.clone()).collect();
                let ds: Vec<_> = en.variants.iter().map(|v| v.discriminant.clone().unwrap().1).collect();
                (
                    quote! { let x: u32 = match self { #( #name::#vs => (#ds) as u32, )* }; soroban_sdk::Ser::ser(&x, o); },
                    quote! { let x: u32 = soroban_sdk::De::de(r)?; #( if x == ((#ds) as u32) { return Some(#name::#vs); } )* None },
                    def,
                )
            } else {
                let mut ser_arms = vec![];
                let mut de_arms = vec![];
                for v in en.variants.iter() {
                    let vi = &v.ident;
                    let (k0, k1) = fnv16(&vi.to_string());
                    let k: u16 = ((k0 as u16) << 8) | k1 as u16;
                    match &v.fields {
                        Fields::Unit => {
                            ser_arms.push(quote! { #name::#vi => { o.push(#k0); o.push(#k1); } });
                            de_arms.push(quote! { if tag == #k { return Some(#name::#vi); } });
                        }
                        Fields::Unnamed(u) => {
                            let n = u.unnamed.len();
                            let binds: Vec<_> = (0..n).map(|i| format_ident!("f{}", i)).collect();
                            ser_arms.push(quote! { #name::#vi( #(#binds),* ) => { o.push(#k0); o.push(#k1); #( soroban_sdk::Ser::ser(#binds, o); )* } });
                            de_arms.push(quote! { if tag == #k { #( let #binds = soroban_sdk::De::de(r)?; )* return Some(#name::#vi( #(#binds),* )); } });
                        }
                        _ => panic!("unsupported enum variant"),
                    }
                }
                (
                    quote! { match self { #(#ser_arms),* } },
                    quote! { let tag: u16 = ((r.byte()? as u16) << 8) | r.byte()? as u16; #(#de_arms)* None },
                    def,
                )
            }
        }
        _ => panic!("unsupported"),
    };
    quote! {
        #input
        impl soroban_sdk::Ser for #name {
            #[allow(unused_variables)]
            fn ser(&self, o: &mut soroban_sdk::Buf) { o.push(#t0); o.push(#t1); #ser_body }
        }
        impl soroban_sdk::De for #name {
            #[allow(unused_variables)]
            fn de(r: &mut soroban_sdk::Rd) -> Option<Self> {
                if r.byte()? != #t0 { return None; }
                if r.byte()? != #t1 { return None; }
                #de_body
            }
        }
        impl soroban_sdk::MDefault for #name { fn mdefault() -> Self { #def_body } }
        impl soroban_sdk::IntoVal<soroban_sdk::Env, soroban_sdk::Val> for #name {
            fn into_val(&self, _e: &soroban_sdk::Env) -> soroban_sdk::Val { soroban_sdk::Val::ser_of(self) }
        }
        impl soroban_sdk::TryFromVal<soroban_sdk::Env, soroban_sdk::Val> for #name {
            type Error = soroban_sdk::ConversionError;
            fn try_from_val(_e: &soroban_sdk::Env, v: &soroban_sdk::Val) -> Result<Self, Self::Error> {
                if v.tag == soroban_sdk::T_SER {
                    let mut r = soroban_sdk::Rd::new(&v.b);
                    match <Self as soroban_sdk::De>::de(&mut r) { Some(x) if r.done() => Ok(x), _ => Err(soroban_sdk::ConversionError) }
                } else { Err(soroban_sdk::ConversionError) }
            }
        }
    }
    .into()
}

#[proc_macro_attribute]
pub fn contracterror(_attr: TokenStream, item: TokenStream) -> TokenStream {
    let input = parse_macro_input!(item as DeriveInput);
    let name = &input.ident;
    quote! {
        #input
        impl From<#name> for soroban_sdk::Error { fn from(e: #name) -> Self { soroban_sdk::Error::from_contract_error(e as u32) } }
    }
    .into()
}

#[proc_macro_attribute]
pub fn contract(_attr: TokenStream, item: TokenStream) -> TokenStream {
    let input = parse_macro_input!(item as DeriveInput);
    let name = &input.ident;
    let client = format_ident!("{}Client", name);
    quote! {
        #input
        pub struct #client<'a> { pub env: soroban_sdk::Env, pub address: soroban_sdk::Address, _p: core::marker::PhantomData<&'a ()> }
        impl<'a> #client<'a> { pub fn new(env: &soroban_sdk::Env, address: &soroban_sdk::Address) -> Self { Self { env: env.clone(), address: address.clone(), _p: core::marker::PhantomData } } }
    }
    .into()
}

#[proc_macro_attribute]
pub fn contractimpl(_attr: TokenStream, item: TokenStream) -> TokenStream {
    item
}

/// Interface client.  Every method forwards to a free hook function
/// `xc_<Client>_<method>(env, contract, args..)` generated next to the trait; its default body is a
/// `MODEL:` failure, and harnesses replace it with an executable specification via `#[kani::stub]`.
#[proc_macro_attribute]
pub fn contractclient(attr: TokenStream, item: TokenStream) -> TokenStream {
    let a = attr.to_string();
    let cname = a
        .split("name")
        .nth(1)
        .and_then(|x| x.split('"').nth(1))
        .expect("name = \"..\"")
        .to_string();
    let sdk: proc_macro2::TokenStream = if a.contains("crate_path") { quote!(crate) } else { quote!(soroban_sdk) };
    let client = format_ident!("{}", cname);
    let tr = parse_macro_input!(item as ItemTrait);
    let mut methods = vec![];
    let mut hooks = vec![];
    for it in &tr.items {
        if let TraitItem::Fn(f) = it {
            let fname = &f.sig.ident;
            let hook = format_ident!("xc_{}_{}", cname, fname);
            let what = format!("{}::{}", cname, fname);
            let mut params = vec![];
            let mut pnames = vec![];
            for arg in f.sig.inputs.iter() {
                if let FnArg::Typed(pt) = arg {
                    let ty: &Type = &pt.ty;
                    let inner: Type = match ty {
                        Type::Reference(r) => (*r.elem).clone(),
                        t => t.clone(),
                    };
                    let is_env = quote!(#inner).to_string().ends_with("Env");
                    if is_env {
                        continue;
                    }
                    let pname = match &*pt.pat {
                        Pat::Ident(i) => i.ident.clone(),
                        _ => panic!("pat"),
                    };
                    params.push(quote! { #pname: &#inner });
                    pnames.push(pname);
                }
            }
            let ret = match &f.sig.output {
                syn::ReturnType::Default => quote!(()),
                syn::ReturnType::Type(_, t) => {
                    let mut out = quote!(#t);
                    if let Type::Path(tp) = &**t {
                        if let Some(seg) = tp.path.segments.last() {
                            if seg.ident == "Result" {
                                if let syn::PathArguments::AngleBracketed(ab) = &seg.arguments {
                                    if let Some(syn::GenericArgument::Type(t0)) = ab.args.first() {
                                        out = quote!(#t0);
                                    }
                                }
                            }
                        }
                    }
                    out
                }
            };
            hooks.push(quote! {
                #[allow(non_snake_case, unused_variables, clippy::too_many_arguments)]
                #[inline(never)]
                pub fn #hook(env: &#sdk::Env, contract: &#sdk::Address, #(#params),*) -> #ret {
                    #sdk::model::unhandled_call(#what)
                }
            });
            let try_fname = format_ident!("try_{}", fname);
            methods.push(quote! {
                #[allow(clippy::too_many_arguments)]
                pub fn #fname(&self, #(#params),*) -> #ret {
                    #hook(&self.env, &self.address, #(#pnames),*)
                }
                /// `try_` variant: the callee may fail for reasons the caller cannot see (a symbolic choice);
                /// the failure is returned instead of trapping, as on the real host.
                #[allow(clippy::too_many_arguments, clippy::type_complexity)]
                pub fn #try_fname(&self, #(#params),*) -> Result<Result<#ret, #sdk::ConversionError>, Result<#sdk::Error, #sdk::InvokeError>> {
                    if #sdk::model::nondet_callee_failure() {
                        return Err(#sdk::model::nondet_callee_error());
                    }
                    Ok(Ok(#hook(&self.env, &self.address, #(#pnames),*)))
                }
            });
        }
    }
    quote! {
        #tr
        #(#hooks)*
        pub struct #client<'a> { pub env: #sdk::Env, pub address: #sdk::Address, _p: core::marker::PhantomData<&'a ()> }
        impl<'a> #client<'a> {
            pub fn new(env: &#sdk::Env, address: &#sdk::Address) -> Self { Self { env: env.clone(), address: address.clone(), _p: core::marker::PhantomData } }
            #(#methods)*
        }
    }
    .into()
}
