use interchain_token::{InterchainToken, InterchainTokenClient};
use soroban_sdk::testutils::{Address as _, Events as _};
use soroban_sdk::{symbol_short, Address, BytesN, Env, String, Symbol, TryFromVal};
use soroban_token_sdk::metadata::TokenMetadata;

#[test]
fn set_admin_event_names_previous_and_new_admin() {
    let env = Env::default();
    env.mock_all_auths();
    let owner = Address::generate(&env);
    let new_owner = Address::generate(&env);
    let id = env.register(
        InterchainToken,
        (
            owner.clone(),
            None::<Address>,
            BytesN::<32>::from_array(&env, &[1; 32]),
            TokenMetadata { decimal: 7, name: String::from_str(&env, "n"), symbol: String::from_str(&env, "s") },
        ),
    );
    let token = InterchainTokenClient::new(&env, &id);
    token.transfer_ownership(&new_owner);
    let ev = env.events().all().last().unwrap();
    let sym = Symbol::try_from_val(&env, &ev.1.get(0).unwrap()).unwrap();
    assert_eq!(sym, symbol_short!("set_admin"));
    let prev = Address::try_from_val(&env, &ev.1.get(1).unwrap()).unwrap();
    let newa = Address::try_from_val(&env, &ev.2).unwrap();
    assert_eq!(newa, new_owner);
    assert_eq!(prev, owner, "set_admin event must name the previous administrator");
}
