// Real-host demonstration for C11: a token deployed with a positive initial supply AND a minter can no
// longer be minted by the service, so an approved inbound transfer to it fails.
mod utils;

use axelar_gateway::types::Message as GatewayMessage;
use interchain_token::InterchainTokenClient;
use interchain_token_service::types::{HubMessage, InterchainTransfer, Message};
use soroban_sdk::xdr::ToXdr;
use soroban_sdk::{testutils::Address as _, vec, Address, BytesN, String};
use soroban_token_sdk::metadata::TokenMetadata;
use utils::{approve_gateway_messages, register_chains, setup_env, TokenMetadataExt, HUB_CHAIN};

#[test]
fn service_can_still_mint_for_inbound_transfers_after_deploy_with_supply_and_minter() {
    let (env, client, gateway_client, _, signers) = setup_env();
    register_chains(&env, &client);
    let sender = Address::generate(&env);
    let minter = Address::generate(&env);
    let token_id = client.mock_all_auths().deploy_interchain_token(
        &sender,
        &BytesN::<32>::from_array(&env, &[1; 32]),
        &TokenMetadata::new(&env, "name", "symbol", 6),
        &100,
        &Some(minter.clone()),
    );
    let token = InterchainTokenClient::new(&env, &client.token_address(&token_id));
    let recipient = Address::generate(&env);
    let msg = HubMessage::ReceiveFromHub {
        source_chain: String::from_str(&env, HUB_CHAIN),
        message: Message::InterchainTransfer(InterchainTransfer {
            token_id: token_id.clone(),
            source_address: Address::generate(&env).to_xdr(&env),
            destination_address: recipient.clone().to_xdr(&env),
            amount: 5,
            data: None,
        }),
    };
    let payload = msg.abi_encode(&env).unwrap();
    let payload_hash: BytesN<32> = env.crypto().keccak256(&payload).into();
    let source_chain = client.its_hub_chain_name();
    let source_address = client.its_hub_address();
    let message_id = String::from_str(&env, "m1");
    approve_gateway_messages(
        &env,
        gateway_client,
        signers,
        vec![&env, GatewayMessage { source_chain: source_chain.clone(), message_id: message_id.clone(), source_address: source_address.clone(), contract_address: client.address.clone(), payload_hash }],
    );
    let res = client.try_execute(&source_chain, &message_id, &source_address, &payload);
    assert!(token.is_minter(&client.address) && res.is_ok() && token.balance(&recipient) == 5,
        "service is minter: {}, inbound transfer result ok: {}", token.is_minter(&client.address), res.is_ok());
}
