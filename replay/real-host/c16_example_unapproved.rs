// Real-host demonstration for C16: the example app must not act on a delivery the gateway never approved.
use axelar_gas_service::AxelarGasService;
use axelar_gateway::testutils;
use example::{Example, ExampleClient};
use soroban_sdk::testutils::{Address as _, Events as _};
use soroban_sdk::{Address, Bytes, Env, String};

#[test]
fn unapproved_delivery_has_no_effect() {
    let env = Env::default();
    env.mock_all_auths();
    let (_signers, gateway) = testutils::setup_gateway(&env, 0, 5);
    let gas = env.register(AxelarGasService, (&Address::generate(&env), &Address::generate(&env)));
    let app_id = env.register(Example, (&gateway.address, &gas));
    let app = ExampleClient::new(&env, &app_id);
    let before = env.events().all().len();
    let res = app.try_execute(
        &String::from_str(&env, "source"),
        &String::from_str(&env, "never-approved"),
        &String::from_str(&env, "someone"),
        &Bytes::from_array(&env, &[1, 2, 3]),
    );
    let emitted_by_app = env.events().all().iter().skip(before as usize).filter(|e| e.0 == app_id).count();
    assert!(res.is_err(), "an unapproved delivery must fail");
    assert_eq!(emitted_by_app, 0, "an unapproved delivery must have no effect");
}
