// Real-host demonstration for C04: a message approved from an address on the hub chain that is NOT
// the configured ITS hub address must be rejected; the current code mints for it.
mod utils;

use axelar_gateway::types::Message as GatewayMessage;
use interchain_token_service::types::{HubMessage, InterchainTransfer, Message};
use soroban_sdk::xdr::ToXdr;
use soroban_sdk::{testutils::Address as _, token, vec, Address, BytesN, String};
use utils::{approve_gateway_messages, register_chains, setup_env, setup_its_token, HUB_CHAIN};

#[test]
fn message_from_another_address_on_the_hub_chain_is_rejected() {
    let (env, client, gateway_client, _, signers) = setup_env();
    register_chains(&env, &client);
    let recipient = Address::generate(&env);
    let source_chain = client.its_hub_chain_name();
    let source_address = String::from_str(&env, "not-the-its-hub");
    assert_ne!(source_address, client.its_hub_address());
    let amount = 1000;
    let deployer = Address::generate(&env);
    let token_id = setup_its_token(&env, &client, &deployer, amount);
    let msg = HubMessage::ReceiveFromHub {
        source_chain: String::from_str(&env, HUB_CHAIN),
        message: Message::InterchainTransfer(InterchainTransfer {
            token_id: token_id.clone(),
            source_address: Address::generate(&env).to_xdr(&env),
            destination_address: recipient.clone().to_xdr(&env),
            amount,
            data: None,
        }),
    };
    let payload = msg.abi_encode(&env).unwrap();
    let payload_hash: BytesN<32> = env.crypto().keccak256(&payload).into();
    let message_id = String::from_str(&env, "test");
    let messages = vec![
        &env,
        GatewayMessage {
            source_chain: source_chain.clone(),
            message_id: message_id.clone(),
            source_address: source_address.clone(),
            contract_address: client.address.clone(),
            payload_hash,
        },
    ];
    approve_gateway_messages(&env, gateway_client, signers, messages);
    let res = client.try_execute(&source_chain, &message_id, &source_address, &payload);
    let minted = token::Client::new(&env, &client.token_address(&token_id)).balance(&recipient);
    assert!(res.is_err() && minted == 0, "delivery from a non-hub address took effect: minted {minted}");
}
