// CHILD-OF: src/abi.rs
// ENCODES: abi::{to_i128, get_message_type, from_vec, into_vec, to_std_string}, From<MessageType> for U256, Message::abi_encode, HubMessage::abi_encode, Message::abi_decode, HubMessage::abi_decode (alloy-sol-types 0.8.14 encoder/decoder as compiled into the crate)
// C10 — repository-owned kernels at full width; encode = Solidity ABI head/tail layout against a
// reference encoder written here from the ABI specification; decode(encode(m)) == m for fixed shapes.
use super::*;
use soroban_sdk::model::{self, any};
use soroban_sdk::{Bytes, BytesN, Env, String};

// ------------------------------------------------------------------ layer 1: kernels
// HARNESS props=C10,C04,C05 tier=quick profile=abi_k mode=strict shape="to_i128 over all 2^256 values"
#[kani::proof]
fn c10_to_i128() {
    let limbs: [u64; 4] = [kani::any(), kani::any(), kani::any(), kani::any()];
    let v = Uint::<256, 4>::from_limbs(limbs);
    let r = to_i128(v);
    let fits = limbs[2] == 0 && limbs[3] == 0 && (limbs[1] >> 63) == 0;
    match r {
        Ok(x) => {
            kani::assert(fits, "VERIF:C10,C04,C05:amounts above 2^127-1 are rejected");
            kani::assert(x >= 0 && (x as u128) == ((limbs[1] as u128) << 64 | limbs[0] as u128), "VERIF:C10,C05:an accepted amount is converted exactly (what is credited inbound is the announced 256-bit amount)");
            kani::cover!(x == i128::MAX, "VERIF:reach:largest amount");
        }
        Err(e) => {
            kani::assert(!fits, "VERIF:C10:every amount up to 2^127-1 is accepted");
            kani::assert(e == ContractError::InvalidAmount, "VERIF:C10:oversized amounts are reported as invalid amount");
            kani::cover!(true, "VERIF:reach:oversized amount");
        }
    }
}

// HARNESS props=C10 tier=quick profile=abi_k mode=strict shape="from_vec / into_vec: empty <-> absent, <=3 bytes"
#[kani::proof]
fn c10_optional_bytes() {
    let env = Env::default();
    let b = any::bytes(3);
    let v = b.to_alloc_vec();
    let back = from_vec(&env, &v);
    kani::assert(back.is_none() == (b.len() == 0), "VERIF:C10:an empty optional byte field reads back as absent, a non-empty one as present");
    if let Some(x) = back {
        kani::assert(x == b, "VERIF:C10:optional bytes survive the round trip");
        kani::cover!(true, "VERIF:reach:non-empty bytes");
    }
    let none: Option<Bytes> = None;
    kani::assert(into_vec(none).is_empty(), "VERIF:C10:an absent optional byte field encodes as empty bytes");
}

// ------------------------------------------------------------------ layer 2: reference ABI encoder (head/tail)
const RCAP: usize = 608;
struct Ref {
    d: [u8; RCAP],
    n: usize,
}
impl Ref {
    fn new() -> Ref {
        Ref { d: [0; RCAP], n: 0 }
    }
    /// one 32-byte big-endian word holding `v`
    fn word(&mut self, v: u128) {
        let b = v.to_be_bytes();
        let base = self.n;
        let mut i = 0;
        while i < 16 {
            self.d[base + 16 + i] = b[i];
            i += 1;
        }
        self.n = base + 32;
    }
    fn word32(&mut self, b: &[u8; 32]) {
        let base = self.n;
        let mut i = 0;
        while i < 32 {
            self.d[base + i] = b[i];
            i += 1;
        }
        self.n = base + 32;
    }
    /// dynamic `bytes`/`string` tail: length word, then the data right-padded with zeros to a multiple of 32
    fn tail(&mut self, data: &soroban_sdk::Buf, len: usize) {
        self.word(len as u128);
        let base = self.n;
        let mut i = 0;
        while i < len {
            self.d[base + i] = data.d[i];
            i += 1;
        }
        self.n = base + pad32(len);
    }
    fn eq_bytes(&self, b: &Bytes) -> bool {
        if b.0.len != self.n {
            return false;
        }
        let mut same = true;
        let mut i = 0;
        while i < self.n {
            if b.0.d[i] != self.d[i] {
                same = false;
            }
            i += 1;
        }
        same
    }
}
const fn pad32(n: usize) -> usize {
    (n + 31) / 32 * 32
}
fn str_buf(s: &String) -> soroban_sdk::Buf {
    s.to_val().b
}

/// InterchainTransfer with fixed field lengths, every leaf symbolic
fn c10_encode_transfer(ls: usize, ld: usize, ldata: usize) {
    let env = Env::default();
    let token_id = any::b32(2);
    let src = any::bytes_exact(ls);
    let dst = any::bytes_exact(ld);
    let amount: i128 = kani::any();
    kani::assume(amount >= 0);
    let data_b = any::bytes_exact(ldata);
    let data = if ldata == 0 { None } else { Some(data_b.clone()) };
    let m = Message::InterchainTransfer(types::InterchainTransfer { token_id: token_id.clone(), source_address: src.clone(), destination_address: dst.clone(), amount, data: data.clone() });
    let got = m.clone().abi_encode(&env);
    // reference: 6 head words, then the three dynamic tails in order
    let mut r = Ref::new();
    let o_src = 6 * 32;
    let o_dst = o_src + 32 + pad32(ls);
    let o_data = o_dst + 32 + pad32(ld);
    r.word(0);
    r.word32(&token_id.0);
    r.word(o_src as u128);
    r.word(o_dst as u128);
    r.word(amount as u128);
    r.word(o_data as u128);
    r.tail(&src.0, ls);
    r.tail(&dst.0, ld);
    r.tail(&data_b.0, ldata);
    match got {
        Ok(b) => {
            kani::assert(r.eq_bytes(&b), "VERIF:C10:an interchain transfer encodes byte for byte as the Solidity ABI encoding of the ITS struct");
            kani::cover!(true, "VERIF:reach:transfer encoded");
        }
        Err(_) => kani::assert(false, "VERIF:C10:every representable message can be encoded"),
    }
}
// HARNESS props=C10 tier=quick profile=abi_e mode=strict shape="InterchainTransfer: source 1 byte, destination 1 byte, no data; token id 2 symbolic bytes; amount 0..2^127-1"
#[kani::proof]
fn c10_encode_transfer_1_1_0() {
    c10_encode_transfer(1, 1, 0)
}

/// decode(encode(m)) == m for the same fixed shapes
fn c10_roundtrip_transfer(ls: usize, ld: usize, ldata: usize) {
    let env = Env::default();
    let token_id = any::b32(2);
    let src = any::bytes_exact(ls);
    let dst = any::bytes_exact(ld);
    let amount: i128 = kani::any();
    kani::assume(amount >= 0);
    let data_b = any::bytes_exact(ldata);
    let data = if ldata == 0 { None } else { Some(data_b.clone()) };
    let m = Message::InterchainTransfer(types::InterchainTransfer { token_id, source_address: src, destination_address: dst, amount, data });
    let enc = match m.clone().abi_encode(&env) {
        Ok(b) => b,
        Err(_) => {
            kani::assert(false, "VERIF:C10:every representable message can be encoded");
            return;
        }
    };
    let back = Message::abi_decode(&env, &enc);
    kani::assert(back == Ok(m), "VERIF:C10:decoding the encoding of a transfer returns the same message");
    kani::cover!(true, "VERIF:reach:transfer round trip");
}
// HARNESS props=C10 tier=quick profile=abi_e mode=strict shape="round trip InterchainTransfer: source 1, destination 1, no data"
#[kani::proof]
fn c10_roundtrip_transfer_1_1_0() {
    c10_roundtrip_transfer(1, 1, 0)
}

// HARNESS props=C10,C04 tier=quick profile=abi_k shape="get_message_type over all 2^256 first words, and every length below 32"
#[kani::proof]
fn c10_get_message_type() {
    let w: [u8; 32] = kani::any();
    let len: usize = kani::any();
    kani::assume(len <= 40);
    let buf: [u8; 40] = {
        let mut b = [0u8; 40];
        let mut i = 0;
        while i < 32 {
            b[i] = w[i];
            i += 1;
        }
        b
    };
    let r = get_message_type(&buf[..len]);
    let mut hi_zero = true;
    let mut i = 0;
    while i < 31 {
        if w[i] != 0 {
            hi_zero = false;
        }
        i += 1;
    }
    let canonical = len >= 32 && hi_zero && w[31] <= 4;
    match r {
        Ok(t) => {
            kani::assert(canonical, "VERIF:C10,C04:only the canonical encodings of the five message types are accepted");
            let want: u8 = match t {
                MessageType::InterchainTransfer => 0,
                MessageType::DeployInterchainToken => 1,
                MessageType::DeployTokenManager => 2,
                MessageType::SendToHub => 3,
                MessageType::ReceiveFromHub => 4,
                _ => 255,
            };
            kani::assert(want == w[31], "VERIF:C10,C04:the message type is read from the first word exactly");
            kani::cover!(w[31] == 4, "VERIF:reach:receive-from-hub tag");
        }
        Err(e) => {
            kani::assert(!canonical, "VERIF:C10:every canonical type tag is accepted");
            kani::assert((len < 32) == (e == ContractError::InsufficientMessageLength), "VERIF:C10:short payloads are reported as too short, bad tags as invalid type");
            kani::cover!(len >= 32, "VERIF:reach:non-canonical tag rejected");
            kani::cover!(len < 32, "VERIF:reach:short payload rejected");
        }
    }
}

/// UTF-8 recogniser written from the Unicode standard (Table 3-7, well-formed byte sequences)
fn utf8_ok(b: &[u8; 4], n: usize) -> bool {
    let mut i = 0;
    let mut ok = true;
    // at most 4 scalars in 4 bytes
    let mut k = 0;
    while k < 4 {
        if i < n {
            let c = b[i];
            let rem = n - i;
            if c < 0x80 {
                i += 1;
            } else if c >= 0xC2 && c <= 0xDF {
                if rem >= 2 && (b[i + 1] & 0xC0) == 0x80 {
                    i += 2;
                } else {
                    ok = false;
                    i = n;
                }
            } else if c >= 0xE0 && c <= 0xEF {
                if rem >= 3 && (b[i + 1] & 0xC0) == 0x80 && (b[i + 2] & 0xC0) == 0x80
                    && !(c == 0xE0 && b[i + 1] < 0xA0) && !(c == 0xED && b[i + 1] > 0x9F) {
                    i += 3;
                } else {
                    ok = false;
                    i = n;
                }
            } else if c >= 0xF0 && c <= 0xF4 {
                if rem >= 4 && (b[i + 1] & 0xC0) == 0x80 && (b[i + 2] & 0xC0) == 0x80 && (b[i + 3] & 0xC0) == 0x80
                    && !(c == 0xF0 && b[i + 1] < 0x90) && !(c == 0xF4 && b[i + 1] > 0x8F) {
                    i += 4;
                } else {
                    ok = false;
                    i = n;
                }
            } else {
                ok = false;
                i = n;
            }
        }
        k += 1;
    }
    ok
}
// HARNESS props=C10 tier=quick profile=abi_k shape="to_std_string for every byte string of length <= 4 (multi-byte scalars included)"
#[kani::proof]
fn c10_to_std_string() {
    let env = Env::default();
    let raw: [u8; 4] = kani::any();
    let n: usize = kani::any();
    kani::assume(n <= 4);
    let mut s = String::empty();
    let mut i = 0;
    while i < 4 {
        if i < n {
            s.d[i] = raw[i];
        }
        i += 1;
    }
    s.len = n;
    let r = to_std_string(s);
    kani::assert(r.is_ok() == utf8_ok(&raw, n), "VERIF:C10:names are accepted exactly when they are well-formed UTF-8");
    if let Ok(st) = r {
        let sb = st.as_bytes();
        let mut same = sb.len() == n;
        let mut j = 0;
        while j < 4 {
            if j < n && j < sb.len() && sb[j] != raw[j] {
                same = false;
            }
            j += 1;
        }
        kani::assert(same, "VERIF:C10:an accepted name is converted byte for byte");
        kani::cover!(n == 4 && raw[0] >= 0xF0, "VERIF:reach:four-byte scalar");
        core::mem::forget(st);
    } else {
        kani::cover!(true, "VERIF:reach:invalid UTF-8 rejected");
    }
}

// PROBE (not registered: no HARNESS line): decode of a reference-encoded transfer
#[kani::proof]
fn probe_decode_transfer() {
    let env = Env::default();
    let token_id = any::b32(1);
    let amount: i128 = kani::any();
    kani::assume(amount >= 0);
    let mut r = Ref::new();
    r.word(0);
    r.word32(&token_id.0);
    r.word(192);
    r.word(256);
    r.word(amount as u128);
    r.word(320);
    let one = any::bytes_exact(1);
    r.tail(&one.0, 1);
    r.tail(&one.0, 1);
    r.tail(&one.0, 0);
    let mut b = soroban_sdk::Buf::new();
    let mut i = 0;
    while i < 352 {
        b.d[i] = r.d[i];
        i += 1;
    }
    b.len = 352;
    let back = Message::abi_decode(&env, &Bytes(b));
    kani::assert(back.is_ok(), "VERIF:C10:probe decode ok");
    core::mem::forget(back);
}
