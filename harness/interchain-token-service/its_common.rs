// CHILD-OF: src/contract.rs
// ROBUST: names no storage key/value type of the service (the storage-naming seeding helpers live in its_seed.rs)
// ENCODES: (shared environment for the ITS harness files: spec stubs and recorders; no harness of its own)
// Spec stubs used by its_*.rs:
//   GatewaySpec.validate_message / call_contract  (proven against the real gateway: c02_validate_message_step, c13_call_contract_*)
//   GasServiceSpec.pay_gas                         (proven: c14_pay_gas)
//   TokenSpec.{mint, transfer, burn, name, symbol, decimals, add_minter, remove_minter}
//        (for service-deployed tokens proven by c12_* / c06_minter_admin; for canonical tokens an assumption: "behaves as a standard token")
//   HubMessage::abi_encode -> injective recorder; HubMessage::abi_decode / get_message_type -> arbitrary results
//   InterchainTokenExecutable.execute_with_interchain_token -> recorder
use super::*;
use crate::abi::MessageType as AbiType;
use soroban_sdk::model::{self, any};
use soroban_sdk::xdr::ToXdr;
use soroban_sdk::{Address, Bytes, BytesN, Env, IntoVal, String, Val};

pub fn its() -> Address {
    Address(5)
}
pub fn gateway_addr() -> Address {
    Address(1)
}
pub fn gas_addr() -> Address {
    Address(6)
}
pub fn hub_chain(env: &Env) -> String {
    String::from_str(env, "axelar")
}
pub struct Cfg {
    pub env: Env,
    pub owner: Address,
    pub hub_address: String,
    pub chain_name: String,
    pub wasm: BytesN<32>,
}
/// constructor-equivalent seeding with arbitrary configuration values
pub fn setup() -> Cfg {
    let env = Env::default();
    any::auths();
    let owner = any::address(4);
    let hub_address = any::string(3);
    let chain_name = any::string(2);
    let wasm = any::b32(1);
    model::with_contract(&its(), || {
        InterchainTokenService::__constructor(env.clone(), owner.clone(), gateway_addr(), gas_addr(), hub_address.clone(), chain_name.clone(), wasm.clone())
    });
    reset_recorders();
    Cfg { env, owner, hub_address, chain_name, wasm }
}
/// a chain name argument: an arbitrary short name, or one of the names the service itself knows (the hub's literal name, its own configured name)
pub fn any_chain_arg(c: &Cfg) -> String {
    let pick: u8 = kani::any();
    if pick == 0 {
        hub_chain(&c.env)
    } else if pick == 1 {
        c.chain_name.clone()
    } else {
        any::string(2)
    }
}
pub fn any_manager_type() -> TokenManagerType {
    if kani::any() {
        TokenManagerType::NativeInterchainToken
    } else {
        TokenManagerType::LockUnlock
    }
}

// ------------------------------------------------------------------ recorders
pub static mut T_CALLS: u32 = 0; // token calls that move value: 1 mint, 2 transfer, 3 burn
pub static mut T_KIND: u8 = 0;
pub static mut T_TOKEN: u32 = 0;
pub static mut T_FROM: u32 = 0;
pub static mut T_TO: u32 = 0;
pub static mut T_AMOUNT: i128 = 0;
pub static mut T_FAILS: bool = false;
pub static mut G_STATUS: u8 = 0;
pub static mut G_FOR: Option<(Address, String, String, String, [u8; 32])> = None;
pub static mut G_CALLS: u32 = 0;
pub static mut G_LAST_TRUE: bool = false;
pub static mut G_ADDR_OK: bool = false;
pub static mut X_CALLS: u32 = 0;
pub static mut X_OK: bool = false;
pub static mut X_EXPECT: Option<(Address, String, String, Bytes, Bytes, BytesN<32>, Address, i128)> = None;
pub static mut X_AFTER_TOKEN: bool = false;
pub static mut ENC_CALLS: u32 = 0;
pub static mut ENC_MSG: Option<HubMessage> = None;
pub static mut ENC_FAILS: bool = false;
pub static mut DEC_TYPE: Option<Result<AbiType, ContractError>> = None;
pub static mut DEC_MSG: Option<Result<HubMessage, ContractError>> = None;
pub static mut PG_CALLS: u32 = 0;
pub static mut PG_OK: bool = false;
pub static mut PG_PAYLOAD: Option<Bytes> = None;
pub static mut PG_EXPECT: Option<(String, Address, Token)> = None;
pub static mut CC_CALLS: u32 = 0;
pub static mut CC_OK: bool = false;
pub static mut CC_PAYLOAD: Option<Bytes> = None;
pub static mut CC_EXPECT: Option<String> = None;
pub static mut TM_NAME: Option<String> = None;
pub static mut TM_SYMBOL: Option<String> = None;
pub static mut TM_DECIMALS: u32 = 0;
pub static mut TM_TOKEN: u32 = 0;
pub static mut M_ITS_IS_MINTER: bool = false; // TokenSpec ghost: ITS holds the minting right of the deployed token
pub static mut M_EXTRA_MINTER: Option<Address> = None;
pub static mut M_ADMIN_CALLS: u32 = 0;
pub fn reset_recorders() {
    unsafe {
        T_CALLS = 0;
        T_FAILS = kani::any();
        G_CALLS = 0;
        X_CALLS = 0;
        ENC_CALLS = 0;
        ENC_FAILS = false;
        PG_CALLS = 0;
        CC_CALLS = 0;
        M_ADMIN_CALLS = 0;
    }
}
pub fn one_token_call(kind: u8, token: &Address, from: &Address, to: &Address, amount: i128) -> bool {
    unsafe { T_CALLS == 1 && T_KIND == kind && T_TOKEN == token.0 && T_FROM == from.0 && T_TO == to.0 && T_AMOUNT == amount }
}
fn rec_token(kind: u8, token: &Address, from: u32, to: u32, amount: i128) {
    unsafe {
        if T_FAILS || amount < 0 {
            model::spec_trap(); // insufficient balance / custody, not a minter, negative amount, overflow ...
        }
        T_CALLS += 1;
        T_KIND = kind;
        T_TOKEN = token.0;
        T_FROM = from;
        T_TO = to;
        T_AMOUNT = amount;
    }
}
pub fn spec_mint(env: &Env, contract: &Address, to: &Address, amount: &i128) {
    // the token's `mint` demands its owner's authorisation (ITS is the invoker) and the owner's minting right
    unsafe {
        if !M_ITS_IS_MINTER {
            model::spec_trap();
        }
    }
    rec_token(1, contract, env.current_contract_address().0, to.0, *amount)
}
pub fn spec_transfer(env: &Env, contract: &Address, from: &Address, to: &Address, amount: &i128) {
    if *from != env.current_contract_address() {
        from.require_auth();
    }
    rec_token(2, contract, from.0, to.0, *amount)
}
pub fn spec_burn(env: &Env, contract: &Address, from: &Address, amount: &i128) {
    if *from != env.current_contract_address() {
        from.require_auth();
    }
    rec_token(3, contract, from.0, 0, *amount)
}
pub fn spec_name(_env: &Env, contract: &Address) -> String {
    unsafe {
        if contract.0 != TM_TOKEN {
            model::spec_trap();
        }
        match &TM_NAME {
            Some(s) => s.clone(),
            None => model::spec_trap(),
        }
    }
}
pub fn spec_symbol(_env: &Env, contract: &Address) -> String {
    unsafe {
        if contract.0 != TM_TOKEN {
            model::spec_trap();
        }
        match &TM_SYMBOL {
            Some(s) => s.clone(),
            None => model::spec_trap(),
        }
    }
}
pub fn spec_decimals(_env: &Env, contract: &Address) -> u32 {
    unsafe {
        if contract.0 != TM_TOKEN {
            model::spec_trap();
        }
        TM_DECIMALS
    }
}
pub fn spec_remove_minter(env: &Env, _contract: &Address, minter: &Address) {
    // owner-only in the token (c06_minter_admin); ITS is the owner and the invoker
    unsafe {
        M_ADMIN_CALLS += 1;
        if *minter == env.current_contract_address() {
            M_ITS_IS_MINTER = false;
        }
        if let Some(m) = &M_EXTRA_MINTER {
            if *m == *minter {
                M_EXTRA_MINTER = None;
            }
        }
    }
}
pub fn spec_add_minter(env: &Env, _contract: &Address, minter: &Address) {
    unsafe {
        M_ADMIN_CALLS += 1;
        if *minter == env.current_contract_address() {
            M_ITS_IS_MINTER = true;
        } else {
            M_EXTRA_MINTER = Some(minter.clone());
        }
    }
}
pub fn spec_validate_message(env: &Env, contract: &Address, caller: &Address, source_chain: &String, message_id: &String, source_address: &String, payload_hash: &BytesN<32>) -> bool {
    unsafe {
        if *caller != env.current_contract_address() {
            caller.require_auth();
        }
        G_CALLS += 1;
        G_ADDR_OK = *contract == gateway_addr();
        let m = match &G_FOR {
            Some((c, ch, id, sa, ph)) => *c == *caller && *ch == *source_chain && *id == *message_id && *sa == *source_address && *ph == payload_hash.0,
            None => false,
        };
        if G_STATUS == 1 && m {
            G_STATUS = 2;
            G_LAST_TRUE = true;
            true
        } else {
            G_LAST_TRUE = false;
            false
        }
    }
}
pub fn spec_is_message_approved(_env: &Env, contract: &Address, source_chain: &String, message_id: &String, source_address: &String, contract_address: &Address, payload_hash: &BytesN<32>) -> bool {
    unsafe {
        let m = match &G_FOR {
            Some((c, ch, id, sa, ph)) => *c == *contract_address && *ch == *source_chain && *id == *message_id && *sa == *source_address && *ph == payload_hash.0,
            None => false,
        };
        *contract == gateway_addr() && G_STATUS == 1 && m
    }
}
pub fn spec_is_message_executed(_env: &Env, contract: &Address, source_chain: &String, message_id: &String) -> bool {
    unsafe {
        match &G_FOR {
            Some((_, ch, id, _, _)) => *contract == gateway_addr() && G_STATUS == 2 && *ch == *source_chain && *id == *message_id,
            None => false,
        }
    }
}
/// any other value-moving token entry point: recorded as an unexpected call (kind 9)
pub fn spec_transfer_from(env: &Env, contract: &Address, spender: &Address, from: &Address, to: &Address, amount: &i128) {
    if *spender != env.current_contract_address() {
        spender.require_auth();
    }
    rec_token(9, contract, from.0, to.0, *amount)
}
pub fn spec_burn_from(env: &Env, contract: &Address, spender: &Address, from: &Address, amount: &i128) {
    if *spender != env.current_contract_address() {
        spender.require_auth();
    }
    rec_token(9, contract, from.0, 0, *amount)
}
pub fn spec_balance(_env: &Env, _contract: &Address, _id: &Address) -> i128 {
    let b: i128 = kani::any();
    kani::assume(b >= 0);
    b
}
pub fn spec_execute_with_token(env: &Env, contract: &Address, source_chain: &String, message_id: &String, source_address: &Bytes, payload: &Bytes, token_id: &BytesN<32>, token_address: &Address, amount: &i128) {
    unsafe {
        X_CALLS += 1;
        X_AFTER_TOKEN = T_CALLS == 1;
        X_OK = match &X_EXPECT {
            Some((c, sc, mi, sa, p, ti, ta, am)) => *c == *contract && *sc == *source_chain && *mi == *message_id && *sa == *source_address && *p == *payload && *ti == *token_id && *ta == *token_address && *am == *amount,
            None => false,
        };
    }
}
pub fn stub_get_message_type(_payload: &[u8]) -> Result<AbiType, ContractError> {
    unsafe {
        match &DEC_TYPE {
            Some(Ok(t)) => Ok(match t {
                AbiType::InterchainTransfer => AbiType::InterchainTransfer,
                AbiType::DeployInterchainToken => AbiType::DeployInterchainToken,
                AbiType::DeployTokenManager => AbiType::DeployTokenManager,
                AbiType::SendToHub => AbiType::SendToHub,
                AbiType::ReceiveFromHub => AbiType::ReceiveFromHub,
                _ => model::spec_trap(),
            }),
            Some(Err(e)) => Err(*e),
            None => model::spec_trap(),
        }
    }
}
pub fn stub_abi_decode(_env: &Env, _payload: &Bytes) -> Result<HubMessage, ContractError> {
    unsafe {
        match &DEC_MSG {
            Some(Ok(m)) => Ok(m.clone()),
            Some(Err(e)) => Err(*e),
            None => model::spec_trap(),
        }
    }
}
/// injective recorder: remembers the message, returns an opaque 2-byte token for it
pub fn stub_abi_encode(this: HubMessage, env: &Env) -> Result<Bytes, ContractError> {
    unsafe {
        if ENC_FAILS {
            return Err(ContractError::InvalidUtf8);
        }
        ENC_CALLS += 1;
        ENC_MSG = Some(this);
        Ok(Bytes::from_array(env, &[0xAB, ENC_CALLS as u8]))
    }
}
pub fn rec_pay_gas(env: &Env, contract: &Address, sender: &Address, destination_chain: &String, destination_address: &String, payload: &Bytes, spender: &Address, token: &Token, metadata: &Bytes) {
    unsafe {
        spender.require_auth(); // GasServiceSpec: the spender must authorise (c14_pay_gas)
        if token.amount <= 0 {
            model::spec_trap(); // GasServiceSpec: positive amount (c14_pay_gas)
        }
        PG_CALLS += 1;
        PG_PAYLOAD = Some(payload.clone());
        PG_OK = match &PG_EXPECT {
            Some((hub, sp, tk)) => *contract == gas_addr() && *sender == its() && *destination_chain == hub_chain(env) && *destination_address == *hub && *spender == *sp && *token == *tk && metadata.is_empty(),
            None => false,
        };
    }
}
pub fn rec_call_contract(env: &Env, contract: &Address, caller: &Address, destination_chain: &String, destination_address: &String, payload: &Bytes) {
    unsafe {
        if *caller != env.current_contract_address() {
            caller.require_auth();
        }
        CC_CALLS += 1;
        CC_PAYLOAD = Some(payload.clone());
        CC_OK = match &CC_EXPECT {
            Some(hub) => *contract == gateway_addr() && *caller == its() && *destination_chain == hub_chain(env) && *destination_address == *hub && PG_CALLS == 1,
            None => false,
        };
    }
}

/// the single message announced to the hub, if exactly one was encoded, paid for and sent
pub fn announced(env: &Env, hub: &String) -> Option<(String, Message)> {
    // both the gas payment and the gateway call must carry the single encoded payload
    unsafe {
        if ENC_CALLS != 1 || PG_CALLS != 1 || CC_CALLS != 1 || !PG_OK || !CC_OK {
            return None;
        }
        let tok = Bytes::from_array(env, &[0xAB, 1]);
        if PG_PAYLOAD != Some(tok.clone()) || CC_PAYLOAD != Some(tok) {
            return None;
        }
        match &ENC_MSG {
            Some(HubMessage::SendToHub { destination_chain, message }) => Some((destination_chain.clone(), message.clone())),
            _ => None,
        }
    }
}
