// CHILD-OF: src/contract.rs
// ROBUST: names no storage key/value type of the service; trust set and token registry are built through set_trusted_chain / register_canonical_token and observed through the public queries
// ENCODES: InterchainTokenService::{__constructor, set_trusted_chain, register_canonical_token, interchain_transfer, deploy_remote_canonical_token, token_address, is_trusted_chain} and what they call (token_handler::take_token, pay_gas_and_call_contract, id derivations) over a short history of public transactions
// STUBS: see its_common.rs (TokenSpec, GasServiceSpec.pay_gas, GatewaySpec.call_contract, HubMessage::abi_encode -> injective recorder)
// C05 / C18 / C07 for canonical tokens, independent of the storage layout (complement of the one-step harnesses in its_out.rs, which seed the registry through its storage keys).
use super::__verif_its_common::*;
use super::*;
use soroban_sdk::model::{self, any};
use soroban_sdk::xdr::ToXdr;
use soroban_sdk::{Address, Bytes, BytesN, Env, String};

/// constructor, then (optionally) the owner trusts `dest`, then (optionally) anyone registers the canonical token `tok`
fn world(dest_trusted: bool, registered: bool, tok: &Address) -> (Cfg, String, Option<BytesN<32>>) {
    let c = setup();
    let env = c.env.clone();
    let dest = any_chain_arg(&c);
    if dest_trusted {
        model::set_auth(&c.owner, true);
        let r = model::with_contract(&its(), || InterchainTokenService::set_trusted_chain(&env, dest.clone()));
        kani::assume(r.is_ok());
    }
    let mut id = None;
    if registered {
        let r = model::with_contract(&its(), || InterchainTokenService::register_canonical_token(&env, tok.clone()));
        kani::assume(r.is_ok());
        id = r.ok();
    }
    any::auths();
    reset_recorders();
    (c, dest, id)
}

// HARNESS props=C05,C07 tier=quick profile=its_pub shape="constructor; owner trusts the destination (or not); the canonical token is registered (or not); then an outbound transfer of that token id (or of an unregistered id): amount full i128, data absent or <=6 bytes"
#[kani::proof]
#[kani::stub(soroban_sdk::token::xc_TokenClient_transfer, spec_transfer)]
#[kani::stub(soroban_sdk::token::xc_TokenClient_burn, spec_burn)]
#[kani::stub(soroban_sdk::token::xc_TokenClient_transfer_from, spec_transfer_from)]
#[kani::stub(soroban_sdk::token::xc_TokenClient_burn_from, spec_burn_from)]
#[kani::stub(soroban_sdk::token::xc_StellarAssetClient_mint, spec_mint)]
#[kani::stub(soroban_sdk::token::xc_TokenClient_balance, spec_balance)]
#[kani::stub(crate::types::HubMessage::abi_encode, stub_abi_encode)]
#[kani::stub(axelar_gas_service::interface::xc_AxelarGasServiceClient_pay_gas, rec_pay_gas)]
#[kani::stub(axelar_gateway::messaging_interface::xc_AxelarGatewayMessagingClient_call_contract, rec_call_contract)]
fn c05_public_canonical_transfer() {
    let trusted: bool = kani::any();
    let registered: bool = kani::any();
    let token_addr = Address(7);
    let (c, dest_chain, reg_id) = world(trusted, registered, &token_addr);
    let env = c.env.clone();
    let token_id = match &reg_id {
        Some(id) => id.clone(),
        None => any::b32(1),
    };
    let caller = any::address(4);
    let dest_addr = any::bytes(2);
    let amount: i128 = kani::any();
    let has_data: bool = kani::any();
    let d = any::bytes(6);
    let data = if has_data { Some(d) } else { None };
    let gas_token = Token { address: Address(3), amount: kani::any() };
    unsafe {
        PG_EXPECT = Some((c.hub_address.clone(), caller.clone(), gas_token.clone()));
        CC_EXPECT = Some(c.hub_address.clone());
    }
    let r = model::with_contract(&its(), || {
        InterchainTokenService::interchain_transfer(&env, caller.clone(), token_id.clone(), dest_chain.clone(), dest_addr.clone(), amount, data.clone(), gas_token.clone())
    });
    match r {
        Ok(()) => {
            kani::assert(amount > 0, "VERIF:C05:an outbound transfer needs a positive amount");
            kani::assert(model::auth_of(&caller), "VERIF:C07:tokens are taken only with the sender's authorisation");
            kani::assert(registered, "VERIF:C05:unknown token ids are refused");
            kani::assert(one_token_call(2, &token_addr, &caller, &its(), amount), "VERIF:C05:exactly the stated amount is taken from the sender, burned (service-deployed) or moved into custody (canonical), once");
            kani::assert(trusted, "VERIF:C05:only trusted destination chains are announced to");
            let want = Message::InterchainTransfer(InterchainTransfer { token_id: token_id.clone(), source_address: caller.clone().to_xdr(&env), destination_address: dest_addr.clone(), amount, data: data.clone() });
            kani::assert(announced(&env, &c.hub_address) == Some((dest_chain.clone(), want)), "VERIF:C05:exactly one send-to-hub message with this token, amount, sender, destination and data goes to the hub address, with the stated gas payment from the sender, over the gateway");
            let (ta, tr) = model::with_contract(&its(), || (InterchainTokenService::token_address(&env, token_id.clone()), InterchainTokenService::is_trusted_chain(&env, dest_chain.clone())));
            kani::assert(ta == token_addr && tr, "VERIF:C05:an outbound transfer changes no registration or trust entry");
            kani::cover!(has_data, "VERIF:reach:canonical token locked and announced (public history)");
        }
        Err(_) => {
            kani::assert(amount <= 0 || !registered || !trusted, "VERIF:C05:a conforming outbound transfer is accepted");
            kani::cover!(amount > 0 && registered && !trusted, "VERIF:reach:untrusted destination refused (public history)");
        }
    }
}

// HARNESS props=C18,C07,C11 tier=quick profile=its_pub shape="constructor; owner trusts the destination (or not); one canonical token is registered (or not); then deploy_remote_canonical_token for that token or for another, unregistered one; metadata arbitrary (decimals full u32)"
#[kani::proof]
#[kani::stub(soroban_sdk::token::xc_TokenClient_name, spec_name)]
#[kani::stub(soroban_sdk::token::xc_TokenClient_symbol, spec_symbol)]
#[kani::stub(soroban_sdk::token::xc_TokenClient_decimals, spec_decimals)]
#[kani::stub(crate::types::HubMessage::abi_encode, stub_abi_encode)]
#[kani::stub(axelar_gas_service::interface::xc_AxelarGasServiceClient_pay_gas, rec_pay_gas)]
#[kani::stub(axelar_gateway::messaging_interface::xc_AxelarGatewayMessagingClient_call_contract, rec_call_contract)]
fn c18_public_deploy_remote_canonical() {
    let trusted: bool = kani::any();
    let registered: bool = kani::any();
    let reg_addr = Address(7);
    let (c, dest_chain, reg_id) = world(trusted, registered, &reg_addr);
    let env = c.env.clone();
    let same: bool = kani::any();
    let asked = if same { reg_addr.clone() } else { Address(4) };
    let caller = any::address(4);
    let gas_token = Token { address: Address(3), amount: kani::any() };
    let name = any::string(2);
    let symbol = any::string(2);
    let decimals: u32 = kani::any();
    unsafe {
        TM_TOKEN = asked.0;
        TM_NAME = Some(name.clone());
        TM_SYMBOL = Some(symbol.clone());
        TM_DECIMALS = decimals;
        PG_EXPECT = Some((c.hub_address.clone(), caller.clone(), gas_token.clone()));
        CC_EXPECT = Some(c.hub_address.clone());
    }
    let r = model::with_contract(&its(), || InterchainTokenService::deploy_remote_canonical_token(&env, asked.clone(), dest_chain.clone(), caller.clone(), gas_token.clone()));
    match r {
        Ok(id) => {
            kani::assert(registered && same && Some(id.clone()) == reg_id, "VERIF:C18:the announced id is the registered id of exactly this canonical token; unregistered tokens are refused");
            kani::assert(model::auth_of(&caller), "VERIF:C07:remote deployment needs the caller's (resp. the gas payer's) authorisation");
            kani::assert(trusted, "VERIF:C18:only trusted destination chains are announced to");
            kani::assert(name.len > 0 && symbol.len > 0 && decimals <= 255, "VERIF:C18:tokens whose metadata cannot be represented are refused");
            let want = Message::DeployInterchainToken(DeployInterchainToken { token_id: id.clone(), name: name.clone(), symbol: symbol.clone(), decimals: decimals as u8, minter: None });
            kani::assert(announced(&env, &c.hub_address) == Some((dest_chain.clone(), want)), "VERIF:C18:exactly one deploy message with that id, the token's actual name, symbol and decimals and no minter goes to the hub, with the stated gas payment from the payer");
            let ta = model::with_contract(&its(), || InterchainTokenService::token_address(&env, id.clone()));
            kani::assert(unsafe { T_CALLS == 0 } && ta == reg_addr, "VERIF:C18:no funds move other than the gas payment, and no registration changes");
            kani::cover!(true, "VERIF:reach:canonical remote deployment announced (public history)");
        }
        Err(_) => {
            kani::assert(!(registered && same) || !trusted || name.len == 0 || symbol.len == 0 || decimals > 255, "VERIF:C18:a conforming remote deployment request is accepted");
            kani::cover!(true, "VERIF:reach:canonical remote deployment refused (public history)");
        }
    }
}

// ---------------------------------------------------------------- inbound, canonical token, public history
use crate::abi::MessageType as AbiType;
use soroban_sdk::crypto::ideal_hash;
fn any_abi_type_pub() -> Result<AbiType, ContractError> {
    let t: u8 = kani::any();
    match t {
        0 => Ok(AbiType::InterchainTransfer),
        1 => Ok(AbiType::DeployInterchainToken),
        2 => Ok(AbiType::DeployTokenManager),
        3 => Ok(AbiType::SendToHub),
        4 => Ok(AbiType::ReceiveFromHub),
        5 => Err(ContractError::InsufficientMessageLength),
        _ => Err(ContractError::InvalidMessageType),
    }
}
// HARNESS props=C04,C05 tier=quick profile=its_pub shape="constructor; owner trusts the origin chain (or not); the canonical token is registered (or not); then one delivery from the hub address: decoder results arbitrary, inner message an InterchainTransfer of the registered (or an unknown) id with every field symbolic; one gateway approval record"
#[kani::proof]
#[kani::stub(axelar_gateway::messaging_interface::xc_AxelarGatewayMessagingClient_validate_message, spec_validate_message)]
#[kani::stub(axelar_gateway::messaging_interface::xc_AxelarGatewayMessagingClient_is_message_approved, spec_is_message_approved)]
#[kani::stub(axelar_gateway::messaging_interface::xc_AxelarGatewayMessagingClient_is_message_executed, spec_is_message_executed)]
#[kani::stub(soroban_sdk::token::xc_TokenClient_transfer_from, spec_transfer_from)]
#[kani::stub(soroban_sdk::token::xc_TokenClient_burn_from, spec_burn_from)]
#[kani::stub(soroban_sdk::token::xc_TokenClient_burn, spec_burn)]
#[kani::stub(soroban_sdk::token::xc_TokenClient_balance, spec_balance)]
#[kani::stub(crate::abi::get_message_type, stub_get_message_type)]
#[kani::stub(crate::types::HubMessage::abi_decode, stub_abi_decode)]
#[kani::stub(soroban_sdk::token::xc_StellarAssetClient_mint, spec_mint)]
#[kani::stub(soroban_sdk::token::xc_TokenClient_transfer, spec_transfer)]
#[kani::stub(crate::executable::xc_InterchainTokenExecutableClient_execute_with_interchain_token, spec_execute_with_token)]
fn c04_public_canonical_receive() {
    let origin_trusted: bool = kani::any();
    let registered: bool = kani::any();
    let token_addr = Address(7);
    let (c, origin, reg_id) = world(origin_trusted, registered, &token_addr);
    let env = c.env.clone();
    let token_id = match &reg_id {
        Some(id) => id.clone(),
        None => any::b32(1),
    };
    // the delivery; it comes from the configured hub address (what happens for other source addresses is the
    // known C04 finding, reported by c04_execute)
    let source_chain = any::string_exact(6);
    let message_id = any::string(2);
    let source_address = c.hub_address.clone();
    let payload = any::bytes(3);
    let ph = ideal_hash(&payload.0);
    let a_contract = any::address(5);
    let a_chain = any::string_exact(6);
    let a_id = any::string(2);
    let a_src = any::string(3);
    let other_payload = any::bytes(3);
    let a_ph = ideal_hash(&other_payload.0);
    let status: u8 = kani::any();
    kani::assume(status <= 2);
    unsafe {
        G_STATUS = status;
        G_FOR = Some((a_contract.clone(), a_chain.clone(), a_id.clone(), a_src.clone(), a_ph));
    }
    let approved = status == 1 && a_contract == its() && a_chain == source_chain && a_id == message_id && a_src == source_address && a_ph == ph;
    let ty = any_abi_type_pub();
    let src_bytes = any::bytes(2);
    let dest = any::address(4);
    let dest_valid: bool = kani::any();
    let amount: i128 = kani::any();
    let has_data: bool = kani::any();
    let d = any::bytes(2);
    let data = if has_data { Some(d) } else { None };
    let dest_bytes = if dest_valid { dest.clone().to_xdr(&env) } else { any::bytes(3) };
    let inner = Message::InterchainTransfer(InterchainTransfer { token_id: token_id.clone(), source_address: src_bytes.clone(), destination_address: dest_bytes, amount, data: data.clone() });
    let wrapper: u8 = kani::any();
    let dec: Result<HubMessage, ContractError> = match wrapper {
        0 => Ok(HubMessage::ReceiveFromHub { source_chain: origin.clone(), message: inner.clone() }),
        1 => Ok(HubMessage::SendToHub { destination_chain: origin.clone(), message: inner.clone() }),
        _ => Err(ContractError::AbiDecodeFailed),
    };
    unsafe {
        DEC_TYPE = Some(ty);
        DEC_MSG = Some(dec);
        X_EXPECT = Some((dest.clone(), origin.clone(), message_id.clone(), src_bytes.clone(), data.clone().unwrap_or(Bytes::new(&env)), token_id.clone(), token_addr.clone(), amount));
    }
    model::with_contract(&its(), || InterchainTokenService::execute(env.clone(), source_chain.clone(), message_id.clone(), source_address.clone(), payload.clone()));
    // ---- the delivery completed: every gate must have held
    kani::assert(unsafe { G_CALLS == 1 && G_ADDR_OK && G_LAST_TRUE } && approved && unsafe { G_STATUS == 2 }, "VERIF:C04:acts only on an unexecuted gateway approval of exactly this payload for the service, which is consumed");
    kani::assert(matches!(unsafe { &DEC_TYPE }, Some(Ok(AbiType::ReceiveFromHub))), "VERIF:C04:outer message type must be receive-from-hub");
    kani::assert(source_chain == hub_chain(&env), "VERIF:C04:the message must come from the hub chain");
    kani::assert(wrapper == 0, "VERIF:C04:payload must decode to a receive-from-hub wrapper around a supported message");
    kani::assert(origin_trusted, "VERIF:C04:origin chain must be currently trusted");
    kani::assert(registered, "VERIF:C04:transfers need a registered token");
    kani::assert(dest_valid, "VERIF:C04:undecodable recipient is rejected");
    kani::assert(one_token_call(2, &token_addr, &its(), &dest, amount), "VERIF:C05:inbound transfer credits exactly the announced amount to the decoded recipient, minted (service-deployed) or released from custody (canonical), once");
    if data.is_some() {
        kani::assert(unsafe { X_CALLS == 1 && X_OK && X_AFTER_TOKEN }, "VERIF:C05:with data, the recipient contract is called once, after the credit, with the same fields");
    } else {
        kani::assert(unsafe { X_CALLS == 0 }, "VERIF:C05:without data no contract is called");
    }
    let ta = model::with_contract(&its(), || InterchainTokenService::token_address(&env, token_id.clone()));
    kani::assert(ta == token_addr && unsafe { model::DEP_N } == 0, "VERIF:C04:an inbound transfer changes no registration");
    kani::cover!(data.is_some(), "VERIF:reach:inbound release with data (public history)");
    kani::cover!(data.is_none(), "VERIF:reach:inbound release without data (public history)");
}

// HARNESS props=C06 tier=quick profile=its_pub shape="constructor, then ANY 2 transactions over {set_trusted_chain, remove_trusted_chain, transfer_ownership} with arbitrary arguments and authorisations, then is_trusted_chain for an arbitrary chain, against a ghost trust set"
#[kani::proof]
fn c06_public_trusted_chain_history() {
    let c = setup();
    let env = c.env.clone();
    let (n1, n2) = (any::string(2), any::string(2));
    let mut owner = c.owner.clone();
    let mut t1 = false;
    let mut t2 = false; // trust of n2, tracked separately only when n2 != n1
    let mut i = 0;
    while i < 2 {
        let kind: u8 = kani::any();
        kani::assume(kind < 3);
        let first: bool = kani::any();
        let name = if first { n1.clone() } else { n2.clone() };
        let on_1 = first || n1 == n2;
        if kind == 2 {
            let x = any::address(4);
            model::with_contract(&its(), || InterchainTokenService::transfer_ownership(&env, x.clone()));
            kani::assert(model::auth_of(&owner), "VERIF:C06:ownership changes hands only with the current owner's authorisation");
            owner = x;
        } else {
            let set = kind == 0;
            let r = model::with_contract(&its(), || if set { InterchainTokenService::set_trusted_chain(&env, name.clone()) } else { InterchainTokenService::remove_trusted_chain(&env, name.clone()) });
            kani::assert(model::auth_of(&owner), "VERIF:C06:the trust set changes only with the authorisation of the owner of the time");
            let was = if on_1 { t1 } else { t2 };
            match r {
                Ok(()) => {
                    kani::assert(was != set, "VERIF:C06:only an untrusted chain can be trusted and only a trusted one removed");
                    if on_1 {
                        t1 = set;
                    } else {
                        t2 = set;
                    }
                }
                Err(_) => kani::assert(was == set, "VERIF:C06:an authorised change of the trust set succeeds"),
            }
        }
        i += 1;
    }
    let (q1, q2, o) = model::with_contract(&its(), || (InterchainTokenService::is_trusted_chain(&env, n1.clone()), InterchainTokenService::is_trusted_chain(&env, n2.clone()), InterchainTokenService::owner(&env)));
    kani::assert(q1 == t1 && (n1 == n2 || q2 == t2), "VERIF:C06:the trust set is exactly the result of the owners' set and remove calls");
    kani::assert(o == owner, "VERIF:C06:the owner is exactly the last named successor");
    kani::cover!(t1 && n1 != n2 && !t2, "VERIF:reach:one of two chains trusted after a history");
}
