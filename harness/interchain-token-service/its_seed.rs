// CHILD-OF: src/contract.rs
// ENCODES: (seeding and observation of the service's trust set and token registry THROUGH ITS STORAGE KEYS, for the one-step harnesses; no harness of its own)
use super::__verif_its_common::*;
use super::*;
use soroban_sdk::model;
use soroban_sdk::{Address, BytesN, Env, IntoVal, String, Val};

pub fn k(d: &DataKey) -> Val {
    d.into_val(&Env)
}
/// the trust set is SEEDED through the storage key and OBSERVED through the public query; the seeding checks that
/// what it wrote is what the contract reads (otherwise the run is inconclusive, not a violation).  Call for
/// distinct chains only (a second call for the same chain with `false` would not clear the first).
pub fn seed_trusted(chain: &String, trusted: bool) {
    let before = is_trusted(chain);
    model::storage_set_if(trusted, &its(), 1, &k(&DataKey::TrustedChain(chain.clone())), &Val::VOID);
    kani::assert(is_trusted(chain) == (trusted || before), "MODEL:seeded pre-state is not what the contract reads (storage layout differs from the one this harness seeds)");
}
pub fn is_trusted(chain: &String) -> bool {
    model::with_contract(&its(), || InterchainTokenService::is_trusted_chain(&Env, chain.clone()))
}
pub fn seed_token(id: &BytesN<32>, present: bool, addr: &Address, ty: TokenManagerType) {
    model::storage_set_if(present, &its(), 1, &k(&DataKey::TokenIdConfigKey(id.clone())), &model::val_of(&TokenIdConfigValue { token_address: addr.clone(), token_manager_type: ty }));
}
pub fn token_config(id: &BytesN<32>) -> Option<Val> {
    model::storage_get(&its(), 1, &k(&DataKey::TokenIdConfigKey(id.clone())))
}
