// CHILD-OF: src/contract.rs
// ENCODES: InterchainTokenService::{execute, execute_message, get_execute_params, token_id_config, token_id_config_with_extended_ttl, set_token_id_config, deploy_interchain_token_contract, is_trusted_chain, its_hub_chain_name, gateway}, AxelarExecutableInterface::validate_message (default method), token_handler::give_token, validate_token_metadata
// STUBS: see its_common.rs (GatewaySpec, TokenSpec, executable recorder); get_message_type and HubMessage::abi_decode return ARBITRARY results (any type tag or error; any HubMessage or error) — a strict over-approximation of what any payload can decode to
// C04 (gating of inbound messages), C05 inbound half, C11 remote-deploy arm.
use super::__verif_its_common::*;
use super::__verif_its_seed::*;
use super::*;
use crate::abi::MessageType as AbiType;
use soroban_sdk::crypto::ideal_hash;
use soroban_sdk::model::{self, any};
use soroban_sdk::xdr::ToXdr;
use soroban_sdk::{Address, Bytes, BytesN, Env, String, Val};

fn any_abi_type() -> Result<AbiType, ContractError> {
    let t: u8 = kani::any();
    match t {
        0 => Ok(AbiType::InterchainTransfer),
        1 => Ok(AbiType::DeployInterchainToken),
        2 => Ok(AbiType::DeployTokenManager),
        3 => Ok(AbiType::SendToHub),
        4 => Ok(AbiType::ReceiveFromHub),
        5 => Err(ContractError::InsufficientMessageLength),
        _ => Err(ContractError::InvalidMessageType),
    }
}
/// bytes that are the encoding of a principal, or junk that is not
fn address_bytes(env: &Env, valid: bool, a: &Address) -> Bytes {
    if valid {
        a.clone().to_xdr(env)
    } else {
        any::bytes(3)
    }
}
struct Inbound {
    is_transfer: bool,
    token_id: BytesN<32>,
    src_bytes: Bytes,
    dest: Address,
    dest_valid: bool,
    amount: i128,
    data: Option<Bytes>,
    name: String,
    symbol: String,
    decimals: u8,
    minter: Option<Address>,
    minter_valid: bool,
    msg: Message,
}
fn any_inbound(env: &Env) -> Inbound {
    let is_transfer: bool = kani::any();
    let token_id = any::b32(1);
    let src_bytes = any::bytes(2);
    let dest = any::address(4);
    let dest_valid: bool = kani::any();
    let amount: i128 = kani::any();
    let has_data: bool = kani::any();
    let d = any::bytes(2);
    let data = if has_data { Some(d) } else { None };
    let name = any::string(2);
    let symbol = any::string(2);
    let decimals: u8 = kani::any();
    let has_minter: bool = kani::any();
    let minter_valid: bool = kani::any();
    let m = any::address(4);
    let minter = if has_minter { Some(m.clone()) } else { None };
    let msg = if is_transfer {
        Message::InterchainTransfer(InterchainTransfer { token_id: token_id.clone(), source_address: src_bytes.clone(), destination_address: address_bytes(env, dest_valid, &dest), amount, data: data.clone() })
    } else {
        Message::DeployInterchainToken(DeployInterchainToken { token_id: token_id.clone(), name: name.clone(), symbol: symbol.clone(), decimals, minter: if has_minter { Some(address_bytes(env, minter_valid, &m)) } else { None } })
    };
    Inbound { is_transfer, token_id, src_bytes, dest, dest_valid, amount, data, name, symbol, decimals, minter, minter_valid, msg }
}

// HARNESS props=C04,C05,C11 tier=quick profile=its shape="one delivery; decoder results arbitrary; inner message transfer or deploy with every field symbolic; one trusted-chain entry, one token entry, one gateway approval record; strings <=2-3 bytes (source chain 6)"
#[kani::proof]
#[kani::stub(axelar_gateway::messaging_interface::xc_AxelarGatewayMessagingClient_validate_message, spec_validate_message)]
#[kani::stub(axelar_gateway::messaging_interface::xc_AxelarGatewayMessagingClient_is_message_approved, spec_is_message_approved)]
#[kani::stub(axelar_gateway::messaging_interface::xc_AxelarGatewayMessagingClient_is_message_executed, spec_is_message_executed)]
#[kani::stub(soroban_sdk::token::xc_TokenClient_transfer_from, spec_transfer_from)]
#[kani::stub(soroban_sdk::token::xc_TokenClient_burn_from, spec_burn_from)]
#[kani::stub(soroban_sdk::token::xc_TokenClient_burn, spec_burn)]
#[kani::stub(soroban_sdk::token::xc_TokenClient_balance, spec_balance)]
#[kani::stub(crate::abi::get_message_type, stub_get_message_type)]
#[kani::stub(crate::types::HubMessage::abi_decode, stub_abi_decode)]
#[kani::stub(soroban_sdk::token::xc_StellarAssetClient_mint, spec_mint)]
#[kani::stub(soroban_sdk::token::xc_TokenClient_transfer, spec_transfer)]
#[kani::stub(crate::executable::xc_InterchainTokenExecutableClient_execute_with_interchain_token, spec_execute_with_token)]
fn c04_execute() {
    let c = setup();
    let env = c.env.clone();
    // the delivery
    let source_chain = any::string_exact(6);
    let message_id = any::string(2);
    let source_address = any::string(3);
    let payload = any::bytes(3);
    let ph = ideal_hash(&payload.0);
    // gateway approval record (for this or another delivery)
    let a_contract = any::address(5);
    let a_chain = any::string_exact(6);
    let a_id = any::string(2);
    let a_src = any::string(3);
    let other_payload = any::bytes(3);
    let a_ph = ideal_hash(&other_payload.0);
    let status: u8 = kani::any();
    kani::assume(status <= 2);
    unsafe {
        G_STATUS = status;
        G_FOR = Some((a_contract.clone(), a_chain.clone(), a_id.clone(), a_src.clone(), a_ph));
        M_ITS_IS_MINTER = kani::any();
    }
    let approved = status == 1 && a_contract == its() && a_chain == source_chain && a_id == message_id && a_src == source_address && a_ph == ph;
    // what the decoder says
    let ty = any_abi_type();
    // the origin named inside the wrapper: a short arbitrary name, or the very chain the delivery came from (the hub's own name)
    let origin = if kani::any() { source_chain.clone() } else { any::string(2) };
    let inb = any_inbound(&env);
    let wrapper: u8 = kani::any();
    let dec: Result<HubMessage, ContractError> = match wrapper {
        0 => Ok(HubMessage::ReceiveFromHub { source_chain: origin.clone(), message: inb.msg.clone() }),
        1 => Ok(HubMessage::SendToHub { destination_chain: origin.clone(), message: inb.msg.clone() }),
        2 => Err(ContractError::AbiDecodeFailed),
        3 => Err(ContractError::InvalidAmount),
        _ => Err(ContractError::InvalidMessageType),
    };
    unsafe {
        DEC_TYPE = Some(ty);
        DEC_MSG = Some(dec);
    }
    // trust set and registry
    let origin_trusted: bool = kani::any();
    seed_trusted(&origin, origin_trusted);
    let token_present: bool = kani::any();
    let token_addr = Address(7);
    let mtype = any_manager_type();
    seed_token(&inb.token_id, token_present, &token_addr, mtype);
    unsafe {
        X_EXPECT = Some((inb.dest.clone(), origin.clone(), message_id.clone(), inb.src_bytes.clone(), inb.data.clone().unwrap_or(Bytes::new(&env)), inb.token_id.clone(), token_addr.clone(), inb.amount));
    }
    let w0 = model::storage_writes();

    model::with_contract(&its(), || InterchainTokenService::execute(env.clone(), source_chain.clone(), message_id.clone(), source_address.clone(), payload.clone()));

    // ---- the delivery completed: every gate must have held
    kani::assert(unsafe { G_CALLS == 1 && G_ADDR_OK && G_LAST_TRUE } && approved && unsafe { G_STATUS == 2 }, "VERIF:C04:acts only on an unexecuted gateway approval of exactly this payload for the service, which is consumed");
    kani::assert(matches!(unsafe { &DEC_TYPE }, Some(Ok(AbiType::ReceiveFromHub))), "VERIF:C04:outer message type must be receive-from-hub");
    kani::assert(source_chain == hub_chain(&env), "VERIF:C04:the message must come from the hub chain");
    kani::assert(wrapper == 0, "VERIF:C04:payload must decode to a receive-from-hub wrapper around a supported message");
    kani::assert(origin_trusted, "VERIF:C04:origin chain must be currently trusted");
    if inb.is_transfer {
        kani::assert(token_present, "VERIF:C04:transfers need a registered token");
        kani::assert(inb.dest_valid, "VERIF:C04:undecodable recipient is rejected");
        let ok = match mtype {
            TokenManagerType::NativeInterchainToken => one_token_call(1, &token_addr, &its(), &inb.dest, inb.amount),
            TokenManagerType::LockUnlock => one_token_call(2, &token_addr, &its(), &inb.dest, inb.amount),
        };
        kani::assert(ok, "VERIF:C05:inbound transfer credits exactly the announced amount to the decoded recipient, minted (service-deployed) or released from custody (canonical), once");
        if inb.data.is_some() {
            kani::assert(unsafe { X_CALLS == 1 && X_OK && X_AFTER_TOKEN }, "VERIF:C05:with data, the recipient contract is called once, after the credit, with the same fields");
        } else {
            kani::assert(unsafe { X_CALLS == 0 }, "VERIF:C05:without data no contract is called");
        }
        kani::assert(token_config(&inb.token_id) == Some(model::val_of(&TokenIdConfigValue { token_address: token_addr.clone(), token_manager_type: mtype })) && unsafe { model::DEP_N } == 0, "VERIF:C04:an inbound transfer changes no registration");
        kani::cover!(mtype == TokenManagerType::LockUnlock && inb.data.is_some(), "VERIF:reach:inbound release with data");
        kani::cover!(mtype == TokenManagerType::NativeInterchainToken && inb.data.is_none(), "VERIF:reach:inbound mint");
    } else {
        kani::assert(!token_present, "VERIF:C11:a remote deploy message for a taken id fails");
        kani::assert(inb.name.len > 0 && inb.symbol.len > 0, "VERIF:C04:deploy messages with unrepresentable metadata are rejected");
        kani::assert(inb.minter.is_none() || inb.minter_valid, "VERIF:C04:undecodable minter is rejected");
        let md = TokenMetadata { name: inb.name.clone(), symbol: inb.symbol.clone(), decimal: inb.decimals as u32 };
        let want_args = model::args_of(&(its(), inb.minter.clone(), inb.token_id.clone(), md.clone()));
        kani::assert(unsafe { model::DEP_N == 1 && model::DEP_BY[0] == its().0 && model::DEP_SALT[0] == inb.token_id.0 && model::DEP_WASM[0] == c.wasm.0 && model::DEP_ARGS[0] == want_args },
            "VERIF:C11:remote deploy creates one token at the address derived from (service, token id) with owner = service, the decoded minter, that id and the announced metadata");
        let deployed = Address(unsafe { model::DEP_ADDR[0] });
        kani::assert(token_config(&inb.token_id) == Some(model::val_of(&TokenIdConfigValue { token_address: deployed.clone(), token_manager_type: TokenManagerType::NativeInterchainToken })), "VERIF:C11:the id is registered to the deployed token as service-deployed");
        kani::assert(unsafe { T_CALLS == 0 && X_CALLS == 0 }, "VERIF:C04:a deploy message moves no funds");
        kani::cover!(inb.minter.is_some(), "VERIF:reach:remote deploy with minter");
    }
    // last: the clause the unchanged tree is known to violate (see known-findings.txt)
    kani::assert(source_address == c.hub_address, "VERIF:C04:the message must come from the configured hub address");
}
