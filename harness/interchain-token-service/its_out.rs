// CHILD-OF: src/contract.rs
// ENCODES: InterchainTokenService::{set_trusted_chain, remove_trusted_chain, is_trusted_chain, interchain_transfer, pay_gas_and_call_contract, deploy_remote_interchain_token, deploy_remote_canonical_token, deploy_remote_token, interchain_token_deploy_salt, canonical_token_deploy_salt, interchain_token_id, chain_name_hash, token_id_config}, token_handler::take_token, validate_token_metadata
// STUBS: see its_common.rs (TokenSpec, GasServiceSpec.pay_gas, GatewaySpec.call_contract); HubMessage::abi_encode -> injective recorder (bytes are C10's business)
// C05 outbound half, C18, C06 (trusted-chain administration), C07 (caller/payer authorisation).
use super::__verif_its_common::*;
use super::__verif_its_seed::*;
use super::*;
use soroban_sdk::crypto::ideal_hash;
use soroban_sdk::model::{self, any};
use soroban_sdk::xdr::ToXdr;
use soroban_sdk::{Address, Bytes, BytesN, Env, String, Val};

// HARNESS props=C06 tier=quick profile=its shape="set/remove_trusted_chain on an arbitrary chain with arbitrary prior trust; witness chain"
#[kani::proof]
fn c06_trusted_chain_admin() {
    let c = setup();
    let chain = any::string(2);
    let was: bool = kani::any();
    seed_trusted(&chain, was);
    let wchain = any::string(2);
    let wwas: bool = kani::any();
    seed_trusted(&wchain, wwas && wchain != chain);
    let set: bool = kani::any();
    let r = model::with_contract(&its(), || {
        if set {
            InterchainTokenService::set_trusted_chain(&c.env, chain.clone())
        } else {
            InterchainTokenService::remove_trusted_chain(&c.env, chain.clone())
        }
    });
    match r {
        Ok(()) => {
            kani::assert(model::auth_of(&c.owner), "VERIF:C06:the trust set changes only with the current owner's authorisation");
            kani::assert(was != set && is_trusted(&chain) == set, "VERIF:C06:only an untrusted chain can be added and only a trusted one removed");
            kani::cover!(set, "VERIF:reach:chain trusted");
            kani::cover!(!set, "VERIF:reach:chain untrusted again");
        }
        Err(_) => {
            kani::assert(was == set, "VERIF:C06:an authorised trust change succeeds");
            kani::cover!(true, "VERIF:reach:trust change refused");
        }
    }
    if wchain != chain {
        kani::assert(is_trusted(&wchain) == wwas, "VERIF:C06:other chains are unaffected");
    }
    let q = model::with_contract(&its(), || InterchainTokenService::is_trusted_chain(&c.env, wchain.clone()));
    kani::assert(q == is_trusted(&wchain), "VERIF:C06:is_trusted_chain agrees with the trust set");
}


// HARNESS props=C05,C07 tier=quick profile=its shape="outbound transfer: amount full i128, data absent or present (<=6 bytes), token registered or not (either manager type), destination trusted or not, gas token arbitrary"
#[kani::proof]
#[kani::stub(soroban_sdk::token::xc_TokenClient_transfer, spec_transfer)]
#[kani::stub(soroban_sdk::token::xc_TokenClient_burn, spec_burn)]
#[kani::stub(soroban_sdk::token::xc_TokenClient_transfer_from, spec_transfer_from)]
#[kani::stub(soroban_sdk::token::xc_TokenClient_burn_from, spec_burn_from)]
#[kani::stub(soroban_sdk::token::xc_StellarAssetClient_mint, spec_mint)]
#[kani::stub(soroban_sdk::token::xc_TokenClient_balance, spec_balance)]
#[kani::stub(crate::types::HubMessage::abi_encode, stub_abi_encode)]
#[kani::stub(axelar_gas_service::interface::xc_AxelarGasServiceClient_pay_gas, rec_pay_gas)]
#[kani::stub(axelar_gateway::messaging_interface::xc_AxelarGatewayMessagingClient_call_contract, rec_call_contract)]
fn c05_interchain_transfer() {
    let c = setup();
    let env = c.env.clone();
    let caller = any::address(4);
    let token_id = any::b32(1);
    let dest_chain = any_chain_arg(&c);
    let dest_addr = any::bytes(2);
    let amount: i128 = kani::any();
    let has_data: bool = kani::any();
    let d = any::bytes(6);
    let data = if has_data { Some(d) } else { None };
    let gas_token = Token { address: Address(3), amount: kani::any() };
    let trusted: bool = kani::any();
    seed_trusted(&dest_chain, trusted);
    let present: bool = kani::any();
    let token_addr = Address(7);
    let mtype = any_manager_type();
    seed_token(&token_id, present, &token_addr, mtype);
    unsafe {
        PG_EXPECT = Some((c.hub_address.clone(), caller.clone(), gas_token.clone()));
        CC_EXPECT = Some(c.hub_address.clone());
    }
    let w0 = model::storage_writes();
    let r = model::with_contract(&its(), || {
        InterchainTokenService::interchain_transfer(&env, caller.clone(), token_id.clone(), dest_chain.clone(), dest_addr.clone(), amount, data.clone(), gas_token.clone())
    });
    match r {
        Ok(()) => {
            kani::assert(amount > 0, "VERIF:C05:an outbound transfer needs a positive amount");
            kani::assert(model::auth_of(&caller), "VERIF:C07:tokens are taken only with the sender's authorisation");
            kani::assert(present, "VERIF:C05:unknown token ids are refused");
            let took = match mtype {
                TokenManagerType::NativeInterchainToken => one_token_call(3, &token_addr, &caller, &Address(0), amount),
                TokenManagerType::LockUnlock => one_token_call(2, &token_addr, &caller, &its(), amount),
            };
            kani::assert(took, "VERIF:C05:exactly the stated amount is taken from the sender, burned (service-deployed) or moved into custody (canonical), once");
            kani::assert(trusted, "VERIF:C05:only trusted destination chains are announced to");
            let want = Message::InterchainTransfer(InterchainTransfer { token_id: token_id.clone(), source_address: caller.clone().to_xdr(&env), destination_address: dest_addr.clone(), amount, data: data.clone() });
            kani::assert(announced(&env, &c.hub_address) == Some((dest_chain.clone(), want)), "VERIF:C05:exactly one send-to-hub message with this token, amount, sender, destination and data goes to the hub address, with the stated gas payment from the sender, over the gateway");
            kani::assert(token_config(&token_id) == Some(model::val_of(&TokenIdConfigValue { token_address: token_addr.clone(), token_manager_type: mtype })) && is_trusted(&dest_chain), "VERIF:C05:an outbound transfer changes no registration or trust entry");
            kani::cover!(mtype == TokenManagerType::LockUnlock && has_data, "VERIF:reach:lock with data");
            kani::cover!(mtype == TokenManagerType::NativeInterchainToken, "VERIF:reach:burn");
        }
        Err(_) => {
            kani::assert(amount <= 0 || !present || !trusted, "VERIF:C05:a conforming outbound transfer is accepted");
            kani::cover!(amount > 0 && present && !trusted, "VERIF:reach:untrusted destination refused");
        }
    }
}

fn spec_id(env: &Env, chain_name: &String, kind_canonical: bool, deployer: &Address, salt: &BytesN<32>, token: &Address) -> [u8; 32] {
    // independent restatement of the derivation: id = H("its-interchain-token-id", zero, H(prefix, H(chain name), ..))
    let cnh = BytesN::<32>(ideal_hash(&chain_name.clone().to_xdr(env).0));
    let ds = if kind_canonical {
        ideal_hash(&("canonical-token-salt", cnh, token.clone()).to_xdr(env).0)
    } else {
        ideal_hash(&("interchain-token-salt", cnh, deployer.clone(), salt.clone()).to_xdr(env).0)
    };
    ideal_hash(&("its-interchain-token-id", Address(0), BytesN::<32>(ds)).to_xdr(env).0)
}

/// remote deployment of a registered token (by (caller, salt) or by canonical address)
fn c18_deploy_remote(canonical: bool) -> u8 {
    let c = setup();
    let env = c.env.clone();
    let caller = any::address(4);
    let salt = any::b32(1);
    let canon_addr = Address(7);
    let dest_chain = any_chain_arg(&c);
    let gas_token = Token { address: Address(3), amount: kani::any() };
    // the registry holds an entry under the id derived from (registrant, reg_salt): the caller's own pair or someone else's
    let registrant = any::address(4);
    let reg_salt = any::b32(1);
    let reg_id = spec_id(&env, &c.chain_name, canonical, &registrant, &reg_salt, &canon_addr);
    let want_id = spec_id(&env, &c.chain_name, canonical, &caller, &salt, &canon_addr);
    let present: bool = kani::any();
    let token_addr = if canonical { canon_addr.clone() } else { Address(8) };
    let mtype = if canonical { TokenManagerType::LockUnlock } else { TokenManagerType::NativeInterchainToken };
    seed_token(&BytesN(reg_id), present, &token_addr, mtype);
    let trusted: bool = kani::any();
    seed_trusted(&dest_chain, trusted);
    let name = any::string(2);
    let symbol = any::string(2);
    let decimals: u32 = kani::any();
    unsafe {
        TM_TOKEN = token_addr.0;
        TM_NAME = Some(name.clone());
        TM_SYMBOL = Some(symbol.clone());
        TM_DECIMALS = decimals;
        PG_EXPECT = Some((c.hub_address.clone(), caller.clone(), gas_token.clone()));
        CC_EXPECT = Some(c.hub_address.clone());
    }
    let w0 = model::storage_writes();
    let r = model::with_contract(&its(), || {
        if canonical {
            InterchainTokenService::deploy_remote_canonical_token(&env, canon_addr.clone(), dest_chain.clone(), caller.clone(), gas_token.clone())
        } else {
            InterchainTokenService::deploy_remote_interchain_token(&env, caller.clone(), salt.clone(), dest_chain.clone(), gas_token.clone())
        }
    });
    match r {
        Ok(id) => {
            kani::assert(id.0 == want_id, "VERIF:C18:the announced id is the one derived from the caller's own (deployer, salt) pair, resp. from the canonical token's address");
            kani::assert(present && reg_id == want_id, "VERIF:C18:the id must already be registered (a foreign caller reusing a salt reaches another id)");
            kani::assert(model::auth_of(&caller), "VERIF:C07:remote deployment needs the caller's (resp. the gas payer's) authorisation");
            kani::assert(trusted, "VERIF:C18:only trusted destination chains are announced to");
            kani::assert(name.len > 0 && symbol.len > 0 && decimals <= 255, "VERIF:C18:tokens whose metadata cannot be represented are refused");
            let want = Message::DeployInterchainToken(DeployInterchainToken { token_id: BytesN(want_id), name: name.clone(), symbol: symbol.clone(), decimals: decimals as u8, minter: None });
            kani::assert(announced(&env, &c.hub_address) == Some((dest_chain.clone(), want)), "VERIF:C18:exactly one deploy message with that id, the token's actual name, symbol and decimals and no minter goes to the hub, with the stated gas payment from the payer");
            kani::assert(unsafe { T_CALLS == 0 } && token_config(&BytesN(reg_id)) == Some(model::val_of(&TokenIdConfigValue { token_address: token_addr.clone(), token_manager_type: mtype })), "VERIF:C18:no funds move other than the gas payment, and no registration changes");
            1
        }
        Err(_) => {
            kani::assert(!(present && reg_id == want_id) || !trusted || name.len == 0 || symbol.len == 0 || decimals > 255, "VERIF:C18:a conforming remote deployment request is accepted");
            0
        }
    }
}
// HARNESS props=C18,C07,C11 tier=quick profile=its_dr shape="deploy_remote_interchain_token: registry entry under the caller's or a foreign (deployer,salt); metadata arbitrary (decimals full u32)"
#[kani::proof]
#[kani::stub(soroban_sdk::token::xc_TokenClient_name, spec_name)]
#[kani::stub(soroban_sdk::token::xc_TokenClient_symbol, spec_symbol)]
#[kani::stub(soroban_sdk::token::xc_TokenClient_decimals, spec_decimals)]
#[kani::stub(crate::types::HubMessage::abi_encode, stub_abi_encode)]
#[kani::stub(axelar_gas_service::interface::xc_AxelarGasServiceClient_pay_gas, rec_pay_gas)]
#[kani::stub(axelar_gateway::messaging_interface::xc_AxelarGatewayMessagingClient_call_contract, rec_call_contract)]
fn c18_deploy_remote_interchain_token() {
    let o = c18_deploy_remote(false);
    kani::cover!(o == 1, "VERIF:reach:remote deployment announced");
    kani::cover!(o == 0, "VERIF:reach:remote deployment refused");
}
// HARNESS props=C18,C07,C11 tier=quick profile=its_dr shape="deploy_remote_canonical_token"
#[kani::proof]
#[kani::stub(soroban_sdk::token::xc_TokenClient_name, spec_name)]
#[kani::stub(soroban_sdk::token::xc_TokenClient_symbol, spec_symbol)]
#[kani::stub(soroban_sdk::token::xc_TokenClient_decimals, spec_decimals)]
#[kani::stub(crate::types::HubMessage::abi_encode, stub_abi_encode)]
#[kani::stub(axelar_gas_service::interface::xc_AxelarGasServiceClient_pay_gas, rec_pay_gas)]
#[kani::stub(axelar_gateway::messaging_interface::xc_AxelarGatewayMessagingClient_call_contract, rec_call_contract)]
fn c18_deploy_remote_canonical_token() {
    let o = c18_deploy_remote(true);
    kani::cover!(o == 1, "VERIF:reach:remote deployment announced");
    kani::cover!(o == 0, "VERIF:reach:remote deployment refused");
}

// HARNESS props=C11,C06 tier=quick profile=its mode=strict shape="configuration and registry queries on an arbitrary state; no query may trap"
#[kani::proof]
fn c11_queries() {
    let c = setup();
    let env = c.env.clone();
    let id = any::b32(1);
    let addr = any::address(7);
    let ty = any_manager_type();
    seed_token(&id, true, &addr, ty);
    let w0 = model::storage_writes();
    let (ta, tt, cn, hub, gs, gwa, wh, own) = model::with_contract(&its(), || {
        (
            InterchainTokenService::token_address(&env, id.clone()),
            InterchainTokenService::token_manager_type(&env, id.clone()),
            InterchainTokenService::chain_name(&env),
            InterchainTokenService::its_hub_address(&env),
            InterchainTokenService::gas_service(&env),
            InterchainTokenService::gateway(&env),
            InterchainTokenService::interchain_token_wasm_hash(&env),
            InterchainTokenService::owner(&env),
        )
    });
    kani::assert(ta == addr && tt == ty, "VERIF:C11:registry queries report exactly the registered token address and manager type");
    kani::assert(cn == c.chain_name && hub == c.hub_address && gs == gas_addr() && gwa == gateway_addr() && wh == c.wasm && own == c.owner, "VERIF:C06:construction stores owner, gateway, gas service, hub address, chain name and token code exactly as given");
    kani::assert(model::storage_writes() == w0, "VERIF:C11:queries change nothing");
    kani::cover!(true, "VERIF:reach:queried");
}
