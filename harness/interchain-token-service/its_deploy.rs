// CHILD-OF: src/contract.rs
// ENCODES: InterchainTokenService::{deploy_interchain_token, register_canonical_token, deploy_interchain_token_contract, set_token_id_config, interchain_token_deploy_salt, canonical_token_deploy_salt, interchain_token_id, chain_name_hash, token_address, token_manager_type}
// STUBS: see its_common.rs — TokenSpec.{mint, add_minter, remove_minter} with a ghost minter set initialised by the token constructor's proven behaviour (c11_token_constructor: owner and designated minter become minters); deployer model (address = f(deployer, salt), occupied address traps)
// C11 (ids, write-once, roles after deployment), C07 (deployer authorisation).
use super::__verif_its_common::*;
use super::__verif_its_seed::*;
use super::*;
use soroban_sdk::crypto::ideal_hash;
use soroban_sdk::model::{self, any};
use soroban_sdk::xdr::ToXdr;
use soroban_sdk::{Address, Buf, Bytes, BytesN, Env, String, Val};

fn spec_id(env: &Env, chain_name: &String, kind_canonical: bool, deployer: &Address, salt: &BytesN<32>, token: &Address) -> [u8; 32] {
    let cnh = BytesN::<32>(ideal_hash(&chain_name.clone().to_xdr(env).0));
    let ds = if kind_canonical {
        ideal_hash(&("canonical-token-salt", cnh, token.clone()).to_xdr(env).0)
    } else {
        ideal_hash(&("interchain-token-salt", cnh, deployer.clone(), salt.clone()).to_xdr(env).0)
    };
    ideal_hash(&("its-interchain-token-id", Address(0), BytesN::<32>(ds)).to_xdr(env).0)
}
static mut TAKEN: bool = false;
fn stub_contract_exists(_a: &Address) -> bool {
    unsafe { TAKEN }
}
/// Token constructor (proven by c11_token_constructor): the owner (argument 0) and the designated
/// minter (argument 1) become minters.  Arguments are parsed from the recorded argument buffer.
fn stub_run_constructor(_addr: &Address, _wasm: &[u8; 32], args: &Buf) {
    unsafe {
        // layout: [count=4][T_ADDR, 16-byte word][T_VOID | T_ADDR, 16-byte word]...
        let owner = ((args.d[14] as u32) << 24) | ((args.d[15] as u32) << 16) | ((args.d[16] as u32) << 8) | args.d[17] as u32;
        M_ITS_IS_MINTER = owner == its().0;
        M_EXTRA_MINTER = None;
        if args.d[18] == soroban_sdk::T_ADDR {
            let m = ((args.d[31] as u32) << 24) | ((args.d[32] as u32) << 16) | ((args.d[33] as u32) << 8) | args.d[34] as u32;
            if m == its().0 {
                M_ITS_IS_MINTER = true;
            } else {
                M_EXTRA_MINTER = Some(Address(m));
            }
        }
    }
}

// HARNESS props=C11,C07,C05 tier=quick profile=its_dep shape="local deployment: supply full i128 (neg/0/pos), minter none / third party / deployer / the service; registry entry for the id present (=> address occupied) or not; witness id"
#[kani::proof]
#[kani::stub(soroban_sdk::token::xc_StellarAssetClient_mint, spec_mint)]
#[kani::stub(interchain_token::interface::xc_InterchainTokenClient_remove_minter, spec_remove_minter)]
#[kani::stub(interchain_token::interface::xc_InterchainTokenClient_add_minter, spec_add_minter)]
#[kani::stub(soroban_sdk::model::contract_exists, stub_contract_exists)]
#[kani::stub(soroban_sdk::model::run_constructor, stub_run_constructor)]
fn c11_deploy_interchain_token() {
    let c = setup();
    let env = c.env.clone();
    unsafe {
        T_FAILS = false;
    }
    let caller = any::address(4);
    let salt = any::b32(1);
    let md = TokenMetadata { name: any::string(2), symbol: any::string(2), decimal: kani::any() };
    let supply: i128 = kani::any();
    let has_minter: bool = kani::any();
    let m: u32 = kani::any();
    kani::assume(m >= 1 && m <= 5); // 5 = the service itself
    let minter = if has_minter { Some(Address(m)) } else { None };
    let want_id = spec_id(&env, &c.chain_name, false, &caller, &salt, &Address(0));
    let present: bool = kani::any();
    seed_token(&BytesN(want_id), present, &Address(9), TokenManagerType::NativeInterchainToken);
    unsafe {
        TAKEN = kani::any();
    }
    kani::assume(!present || unsafe { TAKEN }); // a registered service-deployed id means its address is occupied
    // witness: some other registered id
    let wid = any::b32(1);
    let wty = any_manager_type();
    seed_token(&wid, true, &Address(8), wty);
    let r = model::with_contract(&its(), || InterchainTokenService::deploy_interchain_token(&env, caller.clone(), salt.clone(), md.clone(), supply, minter.clone()));
    match r {
        Ok(id) => {
            kani::assert(model::auth_of(&caller), "VERIF:C07:a token is deployed under a deployer's name only with that deployer's authorisation");
            kani::assert(id.0 == want_id, "VERIF:C11:the token id is the domain-separated hash of (chain name, deployer, salt)");
            kani::assert(!present, "VERIF:C11:re-deploying a taken id fails");
            let initial_minter = if supply > 0 { Some(its()) } else { minter.clone() };
            let want_args = model::args_of(&(its(), initial_minter.clone(), BytesN::<32>(want_id), md.clone()));
            kani::assert(unsafe { model::DEP_N == 1 && model::DEP_BY[0] == its().0 && model::DEP_SALT[0] == want_id && model::DEP_WASM[0] == c.wasm.0 && model::DEP_ARGS[0] == want_args },
                "VERIF:C11:one token is created at the address derived from (service, token id), owned by the service, with that id and the requested metadata");
            let deployed = Address(unsafe { model::DEP_ADDR[0] });
            kani::assert(token_config(&BytesN(want_id)) == Some(model::val_of(&TokenIdConfigValue { token_address: deployed.clone(), token_manager_type: TokenManagerType::NativeInterchainToken })), "VERIF:C11:the id is registered to the deployed token as service-deployed");
            if supply > 0 {
                kani::assert(one_token_call(1, &deployed, &its(), &caller, supply), "VERIF:C11:the initial supply is credited to the deployer, once");
            } else {
                kani::assert(unsafe { T_CALLS == 0 }, "VERIF:C11:without a positive initial supply nothing is minted");
                kani::assert(minter != Some(its()), "VERIF:C11:the service cannot be designated as the only minter of a supply-less token");
            }
            let want_extra = match &minter {
                Some(a) if *a != its() => Some(a.clone()),
                _ => None,
            };
            kani::assert(unsafe { M_EXTRA_MINTER.clone() } == want_extra, "VERIF:C11:besides the service only the designated minter can mint");
            kani::assert(token_config(&wid) == Some(model::val_of(&TokenIdConfigValue { token_address: Address(8), token_manager_type: wty })) || wid.0 == want_id, "VERIF:C11:other registrations never change");
            kani::cover!(supply > 0 && has_minter && m != 5, "VERIF:reach:initial supply with third-party minter");
            kani::cover!(supply <= 0 && !has_minter, "VERIF:reach:no supply no minter");
            // last: the clause the unchanged tree is known to violate for supply > 0 with a third-party minter
            if supply > 0 && has_minter && m != 5 {
                kani::assert(unsafe { M_ITS_IS_MINTER }, "VERIF:C11:the service keeps its minting right (initial supply > 0, minter = third party)");
            } else {
                kani::assert(unsafe { M_ITS_IS_MINTER }, "VERIF:C11:the service keeps its minting right");
            }
        }
        Err(_) => {
            kani::assert(supply <= 0 && minter == Some(its()), "VERIF:C11:a deployment with a fresh id is accepted");
            kani::cover!(true, "VERIF:reach:deployment refused");
        }
    }
}

// HARNESS props=C11 tier=quick profile=its_dep shape="register_canonical_token: arbitrary token address, id present or not, witness id"
#[kani::proof]
fn c11_register_canonical_token() {
    let c = setup();
    let env = c.env.clone();
    let token = any::address(7);
    let want_id = spec_id(&env, &c.chain_name, true, &Address(0), &BytesN([0; 32]), &token);
    let present: bool = kani::any();
    let old_addr = any::address(7);
    let old_ty = any_manager_type();
    seed_token(&BytesN(want_id), present, &old_addr, old_ty);
    let wid = any::b32(1);
    let wty = any_manager_type();
    seed_token(&wid, true, &Address(8), wty);
    let r = model::with_contract(&its(), || InterchainTokenService::register_canonical_token(&env, token.clone()));
    match r {
        Ok(id) => {
            kani::assert(id.0 == want_id, "VERIF:C11:a canonical token's id is the domain-separated hash of (chain name, token address)");
            kani::assert(!present, "VERIF:C11:re-registering a taken id fails");
            kani::assert(token_config(&BytesN(want_id)) == Some(model::val_of(&TokenIdConfigValue { token_address: token.clone(), token_manager_type: TokenManagerType::LockUnlock })), "VERIF:C11:the id is registered to exactly that token as lock/unlock");
            kani::assert(unsafe { model::DEP_N == 0 }, "VERIF:C11:registration deploys nothing");
            kani::cover!(true, "VERIF:reach:canonical token registered");
        }
        Err(_) => {
            kani::assert(present, "VERIF:C11:registering a fresh canonical token succeeds");
            kani::assert(token_config(&BytesN(want_id)) == Some(model::val_of(&TokenIdConfigValue { token_address: old_addr.clone(), token_manager_type: old_ty })), "VERIF:C11:a refused registration leaves the existing entry");
            kani::cover!(true, "VERIF:reach:registration refused");
        }
    }
    kani::assert(token_config(&wid) == Some(model::val_of(&TokenIdConfigValue { token_address: Address(8), token_manager_type: wty })) || wid.0 == want_id, "VERIF:C11:other registrations never change");
}

// HARNESS props=C11 tier=quick profile=its_ids shape="two arbitrary inputs to each id derivation; ideal hash"
#[kani::proof]
fn c11_id_derivations() {
    let c = setup();
    let env = c.env.clone();
    let (d1, d2) = (any::address(4), any::address(4));
    let (s1, s2) = (any::b32(1), any::b32(1));
    let (t1, t2) = (any::address(7), any::address(7));
    let (a, b, ct1, ct2, a_again) = model::with_contract(&its(), || {
        (
            InterchainTokenService::interchain_token_deploy_salt(&env, d1.clone(), s1.clone()),
            InterchainTokenService::interchain_token_deploy_salt(&env, d2.clone(), s2.clone()),
            InterchainTokenService::canonical_token_deploy_salt(&env, t1.clone()),
            InterchainTokenService::canonical_token_deploy_salt(&env, t2.clone()),
            InterchainTokenService::interchain_token_deploy_salt(&env, d1.clone(), s1.clone()),
        )
    });
    kani::assert(a == a_again, "VERIF:C11:derivations are deterministic");
    kani::assert((a == b) == (d1 == d2 && s1 == s2), "VERIF:C11:deploy salts collide exactly for equal (deployer, salt)");
    kani::assert((ct1 == ct2) == (t1 == t2), "VERIF:C11:canonical salts collide exactly for equal token addresses");
    kani::assert(a != ct1 && a != ct2 && b != ct1, "VERIF:C11:the two derivation kinds are domain separated");
    let (ia, ib, ic) = model::with_contract(&its(), || {
        (
            InterchainTokenService::interchain_token_id(&env, Address(0), a.clone()),
            InterchainTokenService::interchain_token_id(&env, Address(0), b.clone()),
            InterchainTokenService::interchain_token_id(&env, Address(0), ct1.clone()),
        )
    });
    kani::assert((ia == ib) == (a == b) && ia != ic && ia != a && ic != ct1, "VERIF:C11:token ids are an injective, domain-separated function of the deploy salt");
    kani::cover!(a == b, "VERIF:reach:equal inputs");
    kani::cover!(a != b, "VERIF:reach:different inputs");
}
