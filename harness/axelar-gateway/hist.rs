// CHILD-OF: src/contract.rs
// ROBUST: names no storage key/value type of the gateway; state is built and observed through public entry points only
// ENCODES: AxelarGateway::{approve_messages, validate_message, is_message_approved, is_message_executed} over a two-step history
// STUBS: auth::validate_proof -> accepts (its obligations: c01_*)
use super::*;
use crate::types::*;
use soroban_sdk::model::{self, any};
use soroban_sdk::{Address, BytesN, Env, Vec};

fn gw() -> Address {
    Address(1)
}
fn stub_validate_proof(_env: &Env, _data_hash: &BytesN<32>, _proof: Proof) -> Result<bool, ContractError> {
    Ok(true)
}
fn empty_proof(env: &Env) -> Proof {
    Proof { signers: Vec::new(env), threshold: kani::any(), nonce: any::b32(1) }
}
fn any_message(_env: &Env) -> Message {
    Message {
        source_chain: any::string(2),
        message_id: any::string(2),
        source_address: any::string(2),
        contract_address: any::address(3),
        payload_hash: any::b32(1),
    }
}

// ---- representation-independent history: the state is built and observed ONLY through public entry
// points (no storage key or value type of the gateway is named), so a change of the storage layout
// is judged on its behaviour instead of failing to compile.
// HARNESS props=C02 tier=thorough profile=gw_hist shape="history: approve A; maybe consume A; then observe / approve an arbitrary B (same or different chain/id split, same or different content); strings <=2 bytes"
#[kani::proof]
#[kani::stub(crate::auth::validate_proof, stub_validate_proof)]
fn c02_history_public_api() {
    let env = Env::default();
    let a = any_message(&env);
    let b = any_message(&env);
    c02_history(env, a, b);
    kani::cover!(true, "VERIF:reach:history explored");
}
fn msg_exact(lc: usize, li: usize) -> Message {
    Message {
        source_chain: any::string_exact(lc),
        message_id: any::string_exact(li),
        source_address: any::string_exact(1),
        contract_address: any::address(3),
        payload_hash: any::b32(1),
    }
}
// HARNESS props=C02 tier=thorough profile=gw_hist shape="history with fixed lengths: A = (chain 1 byte, id 2 bytes), B = (chain 2 bytes, id 1 byte) — the 'same characters, different split' pair; all bytes symbolic"
#[kani::proof]
#[kani::stub(crate::auth::validate_proof, stub_validate_proof)]
fn c02_history_split_shape() {
    let env = Env::default();
    let a = msg_exact(1, 2);
    let b = msg_exact(2, 1);
    c02_history(env, a, b);
    kani::cover!(true, "VERIF:reach:history explored");
}
// HARNESS props=C02 tier=thorough profile=gw_hist shape="history with fixed lengths: A and B both (chain 2, id 2) — same or different id, same or different content"
#[kani::proof]
#[kani::stub(crate::auth::validate_proof, stub_validate_proof)]
fn c02_history_same_shape() {
    let env = Env::default();
    let a = msg_exact(2, 2);
    let b = msg_exact(2, 2);
    c02_history(env, a, b);
    kani::cover!(true, "VERIF:reach:history explored");
}
// HARNESS props=C02 tier=quick profile=gw_hist1 shape="approve A = (chain 1 byte, id 2 bytes); observe B = (chain 2 bytes, id 1 byte) with the same three characters: B is unknown; then approve B: it becomes approved with its own event and A is untouched"
#[kani::proof]
#[kani::stub(crate::auth::validate_proof, stub_validate_proof)]
fn c02_split_ids_distinct() {
    let env = Env::default();
    any::auths();
    let a = msg_exact(1, 2);
    let b = msg_exact(2, 1);
    // the same characters, split differently between chain and id
    kani::assume(a.source_chain.d[0] == b.source_chain.d[0]);
    kani::assume(a.message_id.d[0] == b.source_chain.d[1]);
    kani::assume(a.message_id.d[1] == b.message_id.d[0]);
    let proof = empty_proof(&env);
    let r1 = model::with_contract(&gw(), || <AxelarGateway as AxelarGatewayInterface>::approve_messages(env.clone(), Vec::from_array(&env, [a.clone()]), proof.clone()));
    kani::assume(r1.is_ok());
    let (b_appr, b_exec) = model::with_contract(&gw(), || {
        (
            <AxelarGateway as AxelarGatewayMessagingInterface>::is_message_approved(env.clone(), b.source_chain.clone(), b.message_id.clone(), b.source_address.clone(), b.contract_address.clone(), b.payload_hash.clone()),
            <AxelarGateway as AxelarGatewayMessagingInterface>::is_message_executed(env.clone(), b.source_chain.clone(), b.message_id.clone()),
        )
    });
    kani::assert(!b_appr && !b_exec, "VERIF:C02:ids that differ only in how the same characters are split between chain and id are distinct messages");
    let e0 = model::events_len();
    let r2 = model::with_contract(&gw(), || <AxelarGateway as AxelarGatewayInterface>::approve_messages(env.clone(), Vec::from_array(&env, [b.clone()]), proof.clone()));
    kani::assume(r2.is_ok());
    let b_appr2 = model::with_contract(&gw(), || {
        <AxelarGateway as AxelarGatewayMessagingInterface>::is_message_approved(env.clone(), b.source_chain.clone(), b.message_id.clone(), b.source_address.clone(), b.contract_address.clone(), b.payload_hash.clone())
    });
    kani::assert(b_appr2 && model::events_len() == e0 + 1, "VERIF:C02:a fresh id becomes approved with one event, whatever other ids exist");
    kani::cover!(true, "VERIF:reach:split pair explored");
}
fn c02_history(env: Env, a: Message, b: Message) {
    any::auths();
    let proof = empty_proof(&env);
    let r1 = model::with_contract(&gw(), || <AxelarGateway as AxelarGatewayInterface>::approve_messages(env.clone(), Vec::from_array(&env, [a.clone()]), proof.clone()));
    kani::assume(r1.is_ok());
    let consume: bool = kani::any();
    let mut consumed = false;
    if consume {
        kani::assume(model::auth_of(&a.contract_address));
        consumed = model::with_contract(&gw(), || {
            <AxelarGateway as AxelarGatewayMessagingInterface>::validate_message(env.clone(), a.contract_address.clone(), a.source_chain.clone(), a.message_id.clone(), a.source_address.clone(), a.payload_hash.clone())
        });
        kani::assert(consumed, "VERIF:C02:an approved message can be consumed by the contract it names");
    }
    let same_id = a.source_chain == b.source_chain && a.message_id == b.message_id;
    let same_msg = same_id && a.source_address == b.source_address && a.contract_address == b.contract_address && a.payload_hash == b.payload_hash;
    let q = |m: &Message| -> (bool, bool) {
        model::with_contract(&gw(), || {
            (
                <AxelarGateway as AxelarGatewayMessagingInterface>::is_message_approved(env.clone(), m.source_chain.clone(), m.message_id.clone(), m.source_address.clone(), m.contract_address.clone(), m.payload_hash.clone()),
                <AxelarGateway as AxelarGatewayMessagingInterface>::is_message_executed(env.clone(), m.source_chain.clone(), m.message_id.clone()),
            )
        })
    };
    let (b_appr, b_exec) = q(&b);
    kani::assert(b_exec == (same_id && consumed), "VERIF:C02:an id is reported executed exactly if that (chain, id) pair was consumed — ids that merely concatenate alike are distinct");
    kani::assert(b_appr == (same_msg && !consumed), "VERIF:C02:a message is reported approved exactly if exactly that message was approved and not yet consumed");
    // now a second batch carrying B
    let e0 = model::events_len();
    let r2 = model::with_contract(&gw(), || <AxelarGateway as AxelarGatewayInterface>::approve_messages(env.clone(), Vec::from_array(&env, [b.clone()]), proof.clone()));
    kani::assume(r2.is_ok());
    let (b_appr2, b_exec2) = q(&b);
    let (a_appr2, a_exec2) = q(&a);
    if same_id {
        kani::assert(b_appr2 == b_appr && b_exec2 == b_exec && model::events_len() == e0, "VERIF:C02:re-submitting a known id changes neither its status nor its content and emits no approval event");
    } else {
        kani::assert(b_appr2 && !b_exec2 && model::events_len() == e0 + 1, "VERIF:C02:a fresh id becomes approved with one event, whatever other ids exist");
    }
    kani::assert(a_exec2 == consumed && a_appr2 == !consumed, "VERIF:C02:approving another id never changes an earlier message's status");
}
