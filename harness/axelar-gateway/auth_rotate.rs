// CHILD-OF: src/auth.rs
// ENCODES: auth::rotate_signers, auth::validate_signers, auth::update_rotation_timestamp, auth::initialize_auth, auth::epoch, auth::epoch_by_signers_hash, auth::signers_hash_by_epoch, event::rotate_signers, WeightedSigners::hash
// C03 (ii): installing a set — epoch, the two lookups, duplicate refusal, clock, event; constructor.
use super::*;
use crate::types::*;
use soroban_sdk::crypto::ideal_hash;
use soroban_sdk::model::{self, any};
use soroban_sdk::xdr::ToXdr;
use soroban_sdk::{Address, BytesN, Env, IntoVal, Symbol, Val, Vec};

fn gw() -> Address {
    Address(1)
}
fn any_set(env: &Env, n: usize) -> WeightedSigners {
    let mut v: Vec<WeightedSigner> = Vec::new(env);
    let mut i = 0;
    while i < n {
        v.push_back(WeightedSigner { signer: any::b32(2), weight: kani::any() });
        i += 1;
    }
    WeightedSigners { signers: v, threshold: kani::any(), nonce: any::b32(1) }
}
fn well_formed(ws: &WeightedSigners, n: usize) -> bool {
    if n == 0 {
        return false;
    }
    let mut ok = true;
    let mut total: u128 = 0;
    let mut overflow = false;
    let mut prev = [0u8; 32];
    let mut i = 0;
    while i < n {
        let s = ws.signers.at(i);
        if !(prev < s.signer.0) || s.weight == 0 {
            ok = false;
        }
        match total.checked_add(s.weight) {
            Some(t) => total = t,
            None => overflow = true,
        }
        prev = s.signer.0;
        i += 1;
    }
    ok && !overflow && ws.threshold != 0 && total >= ws.threshold
}
fn k(d: &DataKey) -> Val {
    d.into_val(&Env)
}

/// Pre-state satisfying INV_G around the touched entries: Epoch = e; SignersHashByEpoch(e+1)
/// absent; the candidate's hash either never installed or installed at some epoch 1..=e;
/// one witness set installed at epoch ew <= e (both lookups) that must survive.
fn c03_rotate(n: usize) -> u8 {
    let env = Env::default();
    let set = any_set(&env, n);
    let h = ideal_hash(&set.clone().to_xdr(&env).0);
    let e: u64 = kani::any();
    let d: u64 = kani::any();
    let has_t0: bool = kani::any();
    let t0: u64 = kani::any();
    let t: u64 = kani::any();
    let enforce: bool = kani::any();
    model::set_ledger(t, kani::any());
    let dup: bool = kani::any();
    let dup_epoch: u64 = kani::any();
    kani::assume(1 <= dup_epoch && dup_epoch <= e);
    // witness: some other installed set (hash value outside the ideal hash's range or not: arbitrary but != h)
    let wh = any::b32(2);
    let we: u64 = kani::any();
    kani::assume(1 <= we && we <= e && (!dup || we != dup_epoch));
    model::with_contract(&gw(), || {
        env.storage().instance().set(&DataKey::Epoch, &e);
        env.storage().instance().set(&DataKey::MinimumRotationDelay, &d);
        // the rest of the configuration is present too (arbitrary values), as after any construction
        env.storage().instance().set(&DataKey::PreviousSignerRetention, &kani::any::<u64>());
        env.storage().instance().set(&DataKey::DomainSeparator, &any::b32(1));
        model::storage_set_if(has_t0, &gw(), 0, &k(&DataKey::LastRotationTimestamp), &model::val_of(&t0));
        model::storage_set_if(dup, &gw(), 1, &k(&DataKey::EpochBySignersHash(BytesN(h))), &model::val_of(&dup_epoch));
        model::storage_set_if(dup, &gw(), 1, &k(&DataKey::SignersHashByEpoch(dup_epoch)), &model::val_of(&BytesN(h)));
        env.storage().persistent().set(&DataKey::EpochBySignersHash(wh.clone()), &we);
        env.storage().persistent().set(&DataKey::SignersHashByEpoch(we), &wh);
    });
    let last = if has_t0 { t0 } else { 0 };
    let res = model::with_contract(&gw(), || rotate_signers(&env, &set, enforce));
    let wf = well_formed(&set, n);
    match res {
        Ok(()) => {
            kani::assert(wf, "VERIF:C03:only well-formed sets are installed");
            kani::assert(!dup, "VERIF:C03:a set that was installed before is refused");
            kani::assert(!enforce || (t >= last && t - last >= d), "VERIF:C09:enforced rotation only after the minimum delay");
            kani::assert(e < u64::MAX && model::storage_get(&gw(), 0, &k(&DataKey::Epoch)) == Some(model::val_of(&(e + 1))), "VERIF:C03:epoch advances by exactly one");
            kani::assert(model::storage_get(&gw(), 1, &k(&DataKey::SignersHashByEpoch(e + 1))) == Some(model::val_of(&BytesN(h))), "VERIF:C03:new epoch maps to the set's hash");
            kani::assert(model::storage_get(&gw(), 1, &k(&DataKey::EpochBySignersHash(BytesN(h)))) == Some(model::val_of(&(e + 1))), "VERIF:C03:the set's hash maps to the new epoch");
            kani::assert(model::storage_get(&gw(), 0, &k(&DataKey::LastRotationTimestamp)) == Some(model::val_of(&t)), "VERIF:C09:every successful rotation restarts the clock");
            kani::assert(model::storage_get(&gw(), 1, &k(&DataKey::EpochBySignersHash(wh.clone()))) == Some(model::val_of(&we))
                && model::storage_get(&gw(), 1, &k(&DataKey::SignersHashByEpoch(we))) == Some(model::val_of(&wh)), "VERIF:C03:earlier installed sets keep their epoch (lookups stay mutually inverse)");
            1
        }
        Err(_) => {
            kani::assert(!wf || dup || (enforce && t - last < d), "VERIF:C03:a fresh well-formed set is installed when the delay allows");
            0
        }
    }
}
// HARNESS props=C03,C09 tier=quick profile=gw_rot1 shape="candidate N=1; epoch, delay, times full u64; duplicate/witness entries symbolic"
#[kani::proof]
fn c03_rotate_n1() {
    let o = c03_rotate(1);
    kani::cover!(o == 1, "VERIF:reach:set installed");
    kani::cover!(o == 0, "VERIF:reach:set refused");
}
// HARNESS props=C03,C09 tier=quick profile=gw_rot2 shape="candidate N=2"
#[kani::proof]
fn c03_rotate_n2() {
    let o = c03_rotate(2);
    kani::cover!(o == 1, "VERIF:reach:set installed");
    kani::cover!(o == 0, "VERIF:reach:set refused");
}
// HARNESS props=C03 tier=quick profile=gw_rot1 shape="empty candidate"
#[kani::proof]
fn c03_rotate_n0() {
    let o = c03_rotate(0);
    kani::cover!(o == 0, "VERIF:reach:empty set refused");
}

/// Constructor path: `ni` initial sets of one signer each.
fn c03_init(ni: usize) -> u8 {
    let env = Env::default();
    let mut sets: Vec<WeightedSigners> = Vec::new(&env);
    let mut hs = [[0u8; 32]; 2];
    let mut wf = [false; 2];
    let mut i = 0;
    while i < ni {
        let s = any_set(&env, 1);
        hs[i] = ideal_hash(&s.clone().to_xdr(&env).0);
        wf[i] = well_formed(&s, 1);
        sets.push_back(s);
        i += 1;
    }
    let domain = any::b32(1);
    let d: u64 = kani::any();
    let r: u64 = kani::any();
    let t: u64 = kani::any();
    model::set_ledger(t, kani::any());
    let res = model::with_contract(&gw(), || initialize_auth(env.clone(), domain.clone(), d, r, sets.clone()));
    match res {
        Ok(()) => {
            kani::assert(ni > 0, "VERIF:C03:construction without an initial signer set fails");
            let mut j = 0;
            while j < ni {
                kani::assert(wf[j], "VERIF:C03:construction installs only well-formed sets");
                kani::assert(model::storage_get(&gw(), 1, &k(&DataKey::SignersHashByEpoch(j as u64 + 1))) == Some(model::val_of(&BytesN(hs[j])))
                    && model::storage_get(&gw(), 1, &k(&DataKey::EpochBySignersHash(BytesN(hs[j])))) == Some(model::val_of(&(j as u64 + 1))), "VERIF:C03,C08:initial sets get epochs 1..n, in the order listed, with inverse lookups");
                j += 1;
            }
            kani::assert(ni < 2 || hs[0] != hs[1], "VERIF:C03:duplicate initial sets fail construction");
            kani::assert(model::storage_get(&gw(), 0, &k(&DataKey::Epoch)) == Some(model::val_of(&(ni as u64))), "VERIF:C03:epoch after construction is the number of initial sets");
            kani::assert(model::storage_get(&gw(), 0, &k(&DataKey::LastRotationTimestamp)) == Some(model::val_of(&t)), "VERIF:C09:deployment counts as a rotation for the clock");
            kani::assert(model::storage_get(&gw(), 0, &k(&DataKey::PreviousSignerRetention)) == Some(model::val_of(&r)), "VERIF:C08:the retention window is exactly the configured one, for any number of initial sets");
            kani::assert(model::storage_get(&gw(), 0, &k(&DataKey::MinimumRotationDelay)) == Some(model::val_of(&d))
                && model::storage_get(&gw(), 0, &k(&DataKey::PreviousSignerRetention)) == Some(model::val_of(&r))
                && model::storage_get(&gw(), 0, &k(&DataKey::DomainSeparator)) == Some(model::val_of(&domain)), "VERIF:C03:configuration is stored as given");
            1
        }
        Err(_) => {
            let all_wf = (ni < 1 || wf[0]) && (ni < 2 || wf[1]);
            kani::assert(ni == 0 || !all_wf || (ni == 2 && hs[0] == hs[1]), "VERIF:C03:construction with distinct well-formed sets succeeds");
            0
        }
    }
}
// HARNESS props=C03,C09,C08 tier=quick profile=gw_init shape="constructor with 1 initial set (N=1)"
#[kani::proof]
fn c03_init_1() {
    let o = c03_init(1);
    kani::cover!(o == 1, "VERIF:reach:constructed");
    kani::cover!(o == 0, "VERIF:reach:construction failed");
}
// HARNESS props=C03,C08 tier=quick profile=gw_init shape="constructor with 2 initial sets (N=1 each), possibly equal"
#[kani::proof]
fn c03_init_2() {
    let o = c03_init(2);
    kani::cover!(o == 1, "VERIF:reach:constructed");
    kani::cover!(o == 0, "VERIF:reach:construction failed");
}
// HARNESS props=C03 tier=quick profile=gw_init shape="constructor with no initial set"
#[kani::proof]
fn c03_init_0() {
    let o = c03_init(0);
    kani::cover!(o == 0, "VERIF:reach:construction failed");
}

// HARNESS props=C03,C09 tier=thorough profile=gw_rot3 shape="candidate N=3"
#[kani::proof]
fn c03_rotate_n3() {
    let o = c03_rotate(3);
    kani::cover!(o == 1, "VERIF:reach:set installed");
    kani::cover!(o == 0, "VERIF:reach:set refused");
}
