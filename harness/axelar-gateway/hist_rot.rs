// CHILD-OF: src/contract.rs
// ROBUST: names no storage key/value type of the gateway; the state is built by the constructor and by rotations through the public entry points, and observed through public queries
// ENCODES: AxelarGateway::{__constructor, rotate_signers, validate_proof, epoch, epoch_by_signers_hash, signers_hash_by_epoch} -> auth::{initialize_auth, rotate_signers, validate_proof, update_rotation_timestamp, validate_signers, epoch lookups}, WeightedSigners::hash, Proof::weighted_signers — over a history of constructor + K rotations + one proof check
// STUBS: auth::validate_signatures -> accepts, auth::message_hash_to_sign -> constant (signature weight and digest binding are the obligations of c01_sigs_* and c01_wiring_*/c01_end_to_end_*); every set has one signer
// C08 / C03 / C09 over histories: which installed set may still sign, after how many rotations, and when a rotation may happen.
use super::*;
use crate::types::*;
use soroban_sdk::crypto::{ideal_hash, Hash};
use soroban_sdk::model::{self, any};
use soroban_sdk::xdr::ToXdr;
use soroban_sdk::{Address, BytesN, Env, Vec};

fn gw() -> Address {
    Address(1)
}
fn accept_signatures(_env: &Env, _msg_hash: Hash<32>, _proof: Proof) -> bool {
    true
}
fn no_digest(_env: &Env, _signers_hash: BytesN<32>, _data_hash: &BytesN<32>) -> Hash<32> {
    Hash(BytesN([0u8; 32]))
}
/// sets[i] without a symbolic array index
fn pick(sets: &[WeightedSigners; MAXK + 1], i: usize) -> WeightedSigners {
    if i == 0 {
        sets[0].clone()
    } else if i == 1 {
        sets[1].clone()
    } else if i == 2 {
        sets[2].clone()
    } else {
        sets[3].clone()
    }
}
fn pick_h(hs: &[[u8; 32]; MAXK + 1], i: usize) -> [u8; 32] {
    if i == 0 {
        hs[0]
    } else if i == 1 {
        hs[1]
    } else if i == 2 {
        hs[2]
    } else {
        hs[3]
    }
}
/// a set that differs from the others of the history only in its nonce (one signer, weight 1, threshold 1)
fn nonce_set(env: &Env) -> WeightedSigners {
    let mut key = [0u8; 32];
    key[31] = 1;
    WeightedSigners { signers: Vec::from_array(env, [WeightedSigner { signer: BytesN::from_array(env, &key), weight: 1 }]), threshold: 1, nonce: any::b32(1) }
}
fn any_set(env: &Env) -> WeightedSigners {
    WeightedSigners { signers: Vec::from_array(env, [WeightedSigner { signer: any::b32(2), weight: kani::any() }]), threshold: kani::any(), nonce: any::b32(1) }
}
/// the proof that names exactly this set (signatures are accepted by the stub)
fn proof_of(env: &Env, s: &WeightedSigners) -> Proof {
    Proof { signers: Vec::from_array(env, [ProofSigner { signer: s.signers.at(0).clone(), signature: ProofSignature::Unsigned }]), threshold: s.threshold, nonce: s.nonce.clone() }
}
fn hash_of(env: &Env, s: &WeightedSigners) -> [u8; 32] {
    ideal_hash(&s.clone().to_xdr(env).0)
}
const MAXK: usize = 3;
fn history(k: usize) {
    history_of(k, false)
}
fn history_of(k: usize, nonce_only: bool) {
    let env = Env::default();
    any::auths();
    let owner = any::address(3);
    let operator = any::address(3);
    let delay: u64 = kani::any();
    let retention: u64 = kani::any();
    let sets: [WeightedSigners; MAXK + 1] = if nonce_only { [nonce_set(&env), nonce_set(&env), nonce_set(&env), nonce_set(&env)] } else { [any_set(&env), any_set(&env), any_set(&env), any_set(&env)] };
    let mut hs = [[0u8; 32]; MAXK + 1];
    let mut n = 0;
    while n <= k {
        hs[n] = hash_of(&env, &sets[n]);
        n += 1;
    }
    let mut now: u64 = kani::any();
    model::set_ledger(now, kani::any());
    let r0 = model::with_contract(&gw(), || AxelarGateway::__constructor(env.clone(), owner.clone(), operator.clone(), any::b32(1), delay, retention, Vec::from_array(&env, [sets[0].clone()])));
    kani::assume(r0.is_ok());
    let mut last = now; // deployment starts the rotation clock
    let mut i = 0;
    while i < k {
        // the i-th rotation: candidate sets[i+1], authorised by an arbitrary earlier installed set
        let by: usize = kani::any();
        kani::assume(by <= i);
        let bypass: bool = kani::any();
        let later: u64 = kani::any();
        kani::assume(later >= now);
        now = later;
        model::set_ledger(now, kani::any());
        let r = model::with_contract(&gw(), || <AxelarGateway as AxelarGatewayInterface>::rotate_signers(env.clone(), sets[i + 1].clone(), proof_of(&env, &pick(&sets, by)), bypass));
        kani::assume(r.is_ok()); // the history consists of the rotations that happened
        kani::assert(bypass || by == i, "VERIF:C08,C03:without bypass only the newest set can authorise a rotation");
        kani::assert((i - by) as u64 <= retention, "VERIF:C08:a set that has been superseded more often than the retention allows cannot authorise anything");
        kani::assert(!bypass || model::auth_of(&operator), "VERIF:C06,C09:bypassing the rotation delay needs the operator's authorisation");
        kani::assert(bypass || now - last >= delay, "VERIF:C09:an enforced rotation succeeds only after the minimum delay since the previous rotation or deployment");
        let mut j = 0;
        while j <= i {
            kani::assert(hs[j] != hs[i + 1], "VERIF:C03:a set that was installed before is never installed again");
            j += 1;
        }
        last = now;
        i += 1;
    }
    // the registry after the history
    let which: usize = kani::any();
    kani::assume(which <= k);
    let (ep, e_of, h_at) = model::with_contract(&gw(), || {
        (
            <AxelarGateway as AxelarGatewayInterface>::epoch(&env),
            <AxelarGateway as AxelarGatewayInterface>::epoch_by_signers_hash(&env, BytesN::from_array(&env, &pick_h(&hs, which))),
            <AxelarGateway as AxelarGatewayInterface>::signers_hash_by_epoch(&env, which as u64 + 1),
        )
    });
    kani::assert(ep == k as u64 + 1, "VERIF:C03:every successful installation advances the epoch by exactly one");
    kani::assert(e_of == Ok(which as u64 + 1) && h_at == Ok(BytesN::from_array(&env, &pick_h(&hs, which))), "VERIF:C03,C08:the i-th installed set sits at epoch i, and both lookups say so");
    // one proof check by an arbitrary installed set
    let res = model::with_contract(&gw(), || <AxelarGateway as AxelarGatewayInterface>::validate_proof(&env, any::b32(1), proof_of(&env, &pick(&sets, which))));
    let age = (k - which) as u64;
    match res {
        Ok(latest) => {
            kani::assert(age <= retention, "VERIF:C08:a proof from a set superseded more often than the retention allows is refused");
            kani::assert(latest == (which == k), "VERIF:C08,C03:only the newest set is reported as the latest");
            kani::cover!(which < k, "VERIF:reach:older retained set honoured");
        }
        Err(_) => {
            kani::assert(age > retention, "VERIF:C08:a proof from a set still inside the retention window is honoured");
            kani::cover!(true, "VERIF:reach:outdated set refused");
        }
    }
}
// HARNESS props=C08,C03,C09 tier=thorough profile=gw_hrot_full shape="constructor with one set, then 1 rotation (authorised by the first set; bypass or not; arbitrary clock, delay and retention: full u64), then a proof by either installed set"
#[kani::proof]
#[kani::stub(crate::auth::validate_signatures, accept_signatures)]
#[kani::stub(crate::auth::message_hash_to_sign, no_digest)]
fn c08_history_1() {
    history(1)
}
// HARNESS props=C08,C03,C09 tier=quick profile=gw_hrot shape="constructor with one set, then 1 rotation (bypass or not; arbitrary clock, delay, retention: full u64), then a proof by either installed set; the sets differ only in their nonce byte (one signer, weight 1, threshold 1)"
#[kani::proof]
#[kani::stub(crate::auth::validate_signatures, accept_signatures)]
#[kani::stub(crate::auth::message_hash_to_sign, no_digest)]
fn c08_history_1_nonce_sets() {
    history_of(1, true)
}
// PROBE (not registered: the two-rotation history needs more than the 14 GB per-harness cap; 23 GB observed) props=C08,C03,C09 tier=thorough profile=gw_hrot2 shape="constructor with one set, then 2 rotations each authorised by ANY earlier installed set (bypass or not), then a proof by any of the three sets; the sets differ only in their nonce byte (one signer, weight 1, threshold 1)"
#[kani::proof]
#[kani::stub(crate::auth::validate_signatures, accept_signatures)]
#[kani::stub(crate::auth::message_hash_to_sign, no_digest)]
fn c08_history_2() {
    history_of(2, true)
}
