// CHILD-OF: src/contract.rs
// ROBUST: names no storage key/value type of the gateway; calls the public entry point and reads the event log
// ENCODES: AxelarGateway::call_contract, event::call_contract
// C13 (and the C07 clause of call_contract) — one call from an arbitrary state (call_contract reads and writes no state).
use super::*;
use soroban_sdk::crypto::ideal_hash;
use soroban_sdk::model::{self, any};
use soroban_sdk::{Address, BytesN, Env, Symbol};

fn gw() -> Address {
    Address(1)
}

// ------------------------------------------------------------------ C13
fn c13_call_contract(p: usize) {
    c13_call_contract_with(any::bytes_exact(p))
}
fn c13_call_contract_with(payload: soroban_sdk::Bytes) {
    let env = Env::default();
    any::auths();
    let caller = any::address(3);
    let chain = any::string(2);
    let addr = any::string(2);
    let spec_hash = ideal_hash(&payload.0);
    let w0 = model::storage_writes();
    model::with_contract(&gw(), || {
        <AxelarGateway as AxelarGatewayMessagingInterface>::call_contract(env.clone(), caller.clone(), chain.clone(), addr.clone(), payload.clone())
    });
    kani::assert(model::auth_of(&caller), "VERIF:C13,C07:a cross-chain call is announced as an address only with that address's authorisation");
    kani::assert(model::events_len() == 1, "VERIF:C13:exactly one announcement");
    kani::assert(model::event_contract(0) == gw(), "VERIF:C13:announcement is published by the gateway");
    let want = model::topics_of(&(Symbol::new(&env, "contract_called"), caller.clone(), chain.clone(), addr.clone(), BytesN::<32>::from_array(&env, &spec_hash)));
    kani::assert(model::event_topics(0) == want, "VERIF:C13:topics are (contract_called, sender, chain, address, keccak(payload))");
    kani::assert(model::event_data(0) == model::val_of(&payload), "VERIF:C13:data is the full payload");
    kani::assert(model::storage_writes() == w0, "VERIF:C13:no gateway state changes");
    kani::cover!(true, "VERIF:reach:call announced");
}
// HARNESS props=C13,C07 tier=quick profile=gw_c13 shape="payload 0 bytes; strings <=2 symbolic bytes; 3 principals"
#[kani::proof]
fn c13_call_contract_p0() {
    c13_call_contract(0)
}
// HARNESS props=C13 tier=quick profile=gw_c13 shape="payload 1 byte"
#[kani::proof]
fn c13_call_contract_p1() {
    c13_call_contract(1)
}
// HARNESS props=C13 tier=quick profile=gw_c13 shape="payload 32 bytes"
#[kani::proof]
fn c13_call_contract_p32() {
    c13_call_contract(32)
}
// HARNESS props=C13 tier=quick profile=gw_c13 shape="payload 31 bytes"
#[kani::proof]
fn c13_call_contract_p31() {
    c13_call_contract(31)
}
// HARNESS props=C13 tier=quick profile=gw_c13 shape="payload 33 bytes"
#[kani::proof]
fn c13_call_contract_p33() {
    c13_call_contract(33)
}

// HARNESS props=C13 tier=quick profile=gw_c13b shape="payload 64 bytes"
#[kani::proof]
fn c13_call_contract_p64() {
    c13_call_contract(64)
}

// HARNESS props=C13 tier=quick profile=gw_c13big shape="payload 1030 bytes (all symbolic)"
#[kani::proof]
fn c13_call_contract_p1030() {
    c13_call_contract(1030)
}

// HARNESS props=C13 tier=quick profile=gw_c13long shape="abstract long payload: EVERY length from 65 bytes to 2^32-1, opaque content (equal only to itself; any proper sub-range differs) — covers cut-offs at any size"
#[kani::proof]
fn c13_call_contract_long() {
    c13_call_contract_with(any::bytes_long())
}

