// CHILD-OF: src/contract.rs
// ENCODES: AxelarGateway::call_contract, event::call_contract, AxelarGateway::validate_message, is_message_approved, is_message_executed, message_approval_hash, event::execute_message
// C13 / C02 (consumption side) — one step from an arbitrary pre-state.
use super::*;
use soroban_sdk::crypto::ideal_hash;
use soroban_sdk::model::{self, any};
use soroban_sdk::{Address, BytesN, Env, IntoVal, Symbol, Val};

fn gw() -> Address {
    Address(1)
}

// ------------------------------------------------------------------ C13
fn c13_call_contract(p: usize) {
    c13_call_contract_with(any::bytes_exact(p))
}
fn c13_call_contract_with(payload: soroban_sdk::Bytes) {
    let env = Env::default();
    any::auths();
    let caller = any::address(3);
    let chain = any::string(2);
    let addr = any::string(2);
    let spec_hash = ideal_hash(&payload.0);
    let w0 = model::storage_writes();
    model::with_contract(&gw(), || {
        <AxelarGateway as AxelarGatewayMessagingInterface>::call_contract(env.clone(), caller.clone(), chain.clone(), addr.clone(), payload.clone())
    });
    kani::assert(model::auth_of(&caller), "VERIF:C13,C07:a cross-chain call is announced as an address only with that address's authorisation");
    kani::assert(model::events_len() == 1, "VERIF:C13:exactly one announcement");
    kani::assert(model::event_contract(0) == gw(), "VERIF:C13:announcement is published by the gateway");
    let want = model::topics_of(&(Symbol::new(&env, "contract_called"), caller.clone(), chain.clone(), addr.clone(), BytesN::<32>::from_array(&env, &spec_hash)));
    kani::assert(model::event_topics(0) == want, "VERIF:C13:topics are (contract_called, sender, chain, address, keccak(payload))");
    kani::assert(model::event_data(0) == model::val_of(&payload), "VERIF:C13:data is the full payload");
    kani::assert(model::storage_writes() == w0, "VERIF:C13:no gateway state changes");
    kani::cover!(true, "VERIF:reach:call announced");
}
// HARNESS props=C13,C07 tier=quick profile=gw_c13 shape="payload 0 bytes; strings <=2 symbolic bytes; 3 principals"
#[kani::proof]
fn c13_call_contract_p0() {
    c13_call_contract(0)
}
// HARNESS props=C13 tier=quick profile=gw_c13 shape="payload 1 byte"
#[kani::proof]
fn c13_call_contract_p1() {
    c13_call_contract(1)
}
// HARNESS props=C13 tier=quick profile=gw_c13 shape="payload 32 bytes"
#[kani::proof]
fn c13_call_contract_p32() {
    c13_call_contract(32)
}
// HARNESS props=C13 tier=quick profile=gw_c13 shape="payload 31 bytes"
#[kani::proof]
fn c13_call_contract_p31() {
    c13_call_contract(31)
}
// HARNESS props=C13 tier=quick profile=gw_c13 shape="payload 33 bytes"
#[kani::proof]
fn c13_call_contract_p33() {
    c13_call_contract(33)
}

// HARNESS props=C13 tier=quick profile=gw_c13b shape="payload 64 bytes"
#[kani::proof]
fn c13_call_contract_p64() {
    c13_call_contract(64)
}

// HARNESS props=C13 tier=quick profile=gw_c13big shape="payload 1030 bytes (all symbolic)"
#[kani::proof]
fn c13_call_contract_p1030() {
    c13_call_contract(1030)
}

// HARNESS props=C13 tier=quick profile=gw_c13long shape="abstract long payload: EVERY length from 65 bytes to 2^32-1, opaque content (equal only to itself; any proper sub-range differs) — covers cut-offs at any size"
#[kani::proof]
fn c13_call_contract_long() {
    c13_call_contract_with(any::bytes_long())
}

// ------------------------------------------------------------------ C02: consumption and queries
fn any_message(env: &Env) -> Message {
    Message {
        source_chain: any::string(2),
        message_id: any::string(2),
        source_address: any::string(2),
        contract_address: any::address(3),
        payload_hash: any::b32(1),
    }
}
fn msg_eq(a: &Message, b: &Message) -> bool {
    a.source_chain == b.source_chain && a.message_id == b.message_id && a.source_address == b.source_address && a.contract_address == b.contract_address && a.payload_hash == b.payload_hash
}
fn key_of(chain: &String, id: &String) -> Val {
    DataKey::MessageApproval(MessageApprovalKey { source_chain: chain.clone(), message_id: id.clone() }).into_val(&Env)
}
/// status: 0 absent, 1 Approved(h), 2 Executed, 3 explicit NotApproved
fn seed_status_if(cond: bool, chain: &String, id: &String, status: u8, h: &[u8; 32]) {
    let v: Option<MessageApprovalValue> = match status {
        1 => Some(MessageApprovalValue::Approved(BytesN(*h))),
        2 => Some(MessageApprovalValue::Executed),
        3 => Some(MessageApprovalValue::NotApproved),
        _ => None,
    };
    let present = v.is_some();
    let v = v.unwrap_or(MessageApprovalValue::NotApproved);
    model::storage_set_if(present && cond, &gw(), 1, &key_of(chain, id), &model::val_of(&v));
}
fn status_is(chain: &String, id: &String, status: u8, h: &[u8; 32]) -> bool {
    let got = model::storage_get(&gw(), 1, &key_of(chain, id));
    match status {
        1 => got == Some(model::val_of(&MessageApprovalValue::Approved(BytesN(*h)))),
        2 => got == Some(model::val_of(&MessageApprovalValue::Executed)),
        3 => got == Some(model::val_of(&MessageApprovalValue::NotApproved)),
        _ => got.is_none(),
    }
}
fn spec_msg_hash(env: &Env, m: &Message) -> [u8; 32] {
    use soroban_sdk::xdr::ToXdr;
    ideal_hash(&m.clone().to_xdr(env).0)
}

// HARNESS props=C02,C07,C16 tier=quick profile=gw_c02 shape="one delivered message, one stored approval (arbitrary other message or the same), one witness key; strings <=2 symbolic bytes"
#[kani::proof]
fn c02_validate_message_step() {
    let env = Env::default();
    any::auths();
    // delivered call
    let msg = any_message(&env);
    let caller = msg.contract_address.clone();
    // what the stored approval (if any) was made for
    let approved_for = any_message(&env);
    let h_msg = spec_msg_hash(&env, &msg);
    let h_appr = spec_msg_hash(&env, &approved_for);
    let status: u8 = kani::any();
    kani::assume(status <= 3);
    seed_status_if(true, &msg.source_chain, &msg.message_id, status, &h_appr);
    // witness entry
    let wc = any::string(2);
    let wi = any::string(2);
    let wstatus: u8 = kani::any();
    kani::assume(wstatus <= 2);
    let wh = any::b32(1).0;
    let same_key = wc == msg.source_chain && wi == msg.message_id;
    seed_status_if(!same_key, &wc, &wi, wstatus, &wh);
    let w0 = model::storage_writes();
    let ok = model::with_contract(&gw(), || {
        <AxelarGateway as AxelarGatewayMessagingInterface>::validate_message(
            env.clone(), caller.clone(), msg.source_chain.clone(), msg.message_id.clone(), msg.source_address.clone(), msg.payload_hash.clone())
    });
    kani::assert(model::auth_of(&caller), "VERIF:C07,C02,C16:message consumed only with the destination contract's authorisation");
    let conforming = status == 1 && msg_eq(&msg, &approved_for);
    kani::assert(ok == conforming, "VERIF:C02:consumption succeeds exactly for an approved, unexecuted, exactly matching message");
    if ok {
        kani::assert(status_is(&msg.source_chain, &msg.message_id, 2, &h_msg), "VERIF:C02:consumed message becomes executed");
        kani::assert(model::events_len() == 1 && model::event_contract(0) == gw()
            && model::event_topics(0) == model::topics_of(&(Symbol::new(&env, "message_executed"), msg.clone())), "VERIF:C02:exactly one message_executed event with the message");
        kani::cover!(true, "VERIF:reach:consumed");
    } else {
        kani::assert(model::storage_writes() == w0 && model::events_len() == 0, "VERIF:C02:refused consumption changes nothing");
        kani::assert(status_is(&msg.source_chain, &msg.message_id, status, &h_appr), "VERIF:C02:refused consumption leaves the status");
        kani::cover!(status == 1, "VERIF:reach:approved for something else");
        kani::cover!(status == 2, "VERIF:reach:already executed");
    }
    if !same_key {
        kani::assert(status_is(&wc, &wi, wstatus, &wh), "VERIF:C02:other message ids are untouched (key = (chain, id) as a pair)");
        kani::cover!(wc.len + wi.len == msg.source_chain.len + msg.message_id.len && wc.len != msg.source_chain.len, "VERIF:reach:witness with the same concatenation but another split");
    }
}

// HARNESS props=C02 tier=quick profile=gw_c02 shape="status queries on an arbitrary stored status"
#[kani::proof]
fn c02_queries_agree() {
    let env = Env::default();
    let msg = any_message(&env);
    let approved_for = any_message(&env);
    let h_msg = spec_msg_hash(&env, &msg);
    let h_appr = spec_msg_hash(&env, &approved_for);
    let status: u8 = kani::any();
    kani::assume(status <= 3);
    seed_status_if(true, &msg.source_chain, &msg.message_id, status, &h_appr);
    let w0 = model::storage_writes();
    let appr = model::with_contract(&gw(), || {
        <AxelarGateway as AxelarGatewayMessagingInterface>::is_message_approved(
            env.clone(), msg.source_chain.clone(), msg.message_id.clone(), msg.source_address.clone(), msg.contract_address.clone(), msg.payload_hash.clone())
    });
    let exec = model::with_contract(&gw(), || {
        <AxelarGateway as AxelarGatewayMessagingInterface>::is_message_executed(env.clone(), msg.source_chain.clone(), msg.message_id.clone())
    });
    kani::assert(appr == (status == 1 && msg_eq(&msg, &approved_for)), "VERIF:C02:is_message_approved agrees with the stored approval");
    kani::assert(exec == (status == 2), "VERIF:C02:is_message_executed agrees with the stored status");
    kani::assert(model::storage_writes() == w0 && model::events_len() == 0, "VERIF:C02:queries change nothing");
    kani::cover!(appr, "VERIF:reach:approved");
    kani::cover!(exec, "VERIF:reach:executed");
}

// HARNESS props=C02 tier=quick profile=gw_c02 mode=strict shape="conforming consumption: approved for exactly this message, caller authorised — must succeed without any trap"
#[kani::proof]
fn c02_consume_conforming_strict() {
    let env = Env::default();
    let msg = any_message(&env);
    let caller = msg.contract_address.clone();
    model::set_auth(&caller, true);
    let h_msg = spec_msg_hash(&env, &msg);
    seed_status_if(true, &msg.source_chain, &msg.message_id, 1, &h_msg);
    let ok = model::with_contract(&gw(), || {
        <AxelarGateway as AxelarGatewayMessagingInterface>::validate_message(
            env.clone(), caller.clone(), msg.source_chain.clone(), msg.message_id.clone(), msg.source_address.clone(), msg.payload_hash.clone())
    });
    kani::assert(ok, "VERIF:C02:an approved, unexecuted, exactly matching message is consumed by the contract it names");
    let again = model::with_contract(&gw(), || {
        <AxelarGateway as AxelarGatewayMessagingInterface>::validate_message(
            env.clone(), caller.clone(), msg.source_chain.clone(), msg.message_id.clone(), msg.source_address.clone(), msg.payload_hash.clone())
    });
    kani::assert(!again, "VERIF:C02:consuming a message succeeds exactly once");
    kani::cover!(true, "VERIF:reach:consumed once");
}
