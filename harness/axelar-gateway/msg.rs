// CHILD-OF: src/contract.rs
// ENCODES: AxelarGateway::validate_message, is_message_approved, is_message_executed, message_approval_hash, event::execute_message
// C02 (consumption side) — one step from an arbitrary pre-state.  (C13 lives in c13.rs.)
use super::*;
use soroban_sdk::crypto::ideal_hash;
use soroban_sdk::model::{self, any};
use soroban_sdk::{Address, BytesN, Env, IntoVal, Symbol, Val};

pub fn gw() -> Address {
    Address(1)
}

// ------------------------------------------------------------------ C02: consumption and queries
pub fn any_message(env: &Env) -> Message {
    Message {
        source_chain: any::string(2),
        message_id: any::string(2),
        source_address: any::string(2),
        contract_address: any::address(3),
        payload_hash: any::b32(1),
    }
}
pub fn msg_eq(a: &Message, b: &Message) -> bool {
    a.source_chain == b.source_chain && a.message_id == b.message_id && a.source_address == b.source_address && a.contract_address == b.contract_address && a.payload_hash == b.payload_hash
}
pub fn key_of(chain: &String, id: &String) -> Val {
    DataKey::MessageApproval(MessageApprovalKey { source_chain: chain.clone(), message_id: id.clone() }).into_val(&Env)
}
/// status: 0 absent, 1 Approved(h), 2 Executed, 3 explicit NotApproved
pub fn seed_status_if(cond: bool, chain: &String, id: &String, status: u8, h: &[u8; 32]) {
    let v: Option<MessageApprovalValue> = match status {
        1 => Some(MessageApprovalValue::Approved(BytesN(*h))),
        2 => Some(MessageApprovalValue::Executed),
        3 => Some(MessageApprovalValue::NotApproved),
        _ => None,
    };
    let present = v.is_some();
    let v = v.unwrap_or(MessageApprovalValue::NotApproved);
    model::storage_set_if(present && cond, &gw(), 1, &key_of(chain, id), &model::val_of(&v));
}
pub fn status_is(chain: &String, id: &String, status: u8, h: &[u8; 32]) -> bool {
    let got = model::storage_get(&gw(), 1, &key_of(chain, id));
    match status {
        1 => got == Some(model::val_of(&MessageApprovalValue::Approved(BytesN(*h)))),
        2 => got == Some(model::val_of(&MessageApprovalValue::Executed)),
        3 => got == Some(model::val_of(&MessageApprovalValue::NotApproved)),
        _ => got.is_none(),
    }
}
pub fn spec_msg_hash(env: &Env, m: &Message) -> [u8; 32] {
    use soroban_sdk::xdr::ToXdr;
    ideal_hash(&m.clone().to_xdr(env).0)
}

// HARNESS props=C02,C07,C16 tier=quick profile=gw_c02 shape="one delivered message, one stored approval (arbitrary other message or the same), one witness key; strings <=2 symbolic bytes"
#[kani::proof]
fn c02_validate_message_step() {
    let env = Env::default();
    any::auths();
    // delivered call
    let msg = any_message(&env);
    let caller = msg.contract_address.clone();
    // what the stored approval (if any) was made for
    let approved_for = any_message(&env);
    let h_msg = spec_msg_hash(&env, &msg);
    let h_appr = spec_msg_hash(&env, &approved_for);
    let status: u8 = kani::any();
    kani::assume(status <= 3);
    seed_status_if(true, &msg.source_chain, &msg.message_id, status, &h_appr);
    // witness entry
    let wc = any::string(2);
    let wi = any::string(2);
    let wstatus: u8 = kani::any();
    kani::assume(wstatus <= 2);
    let wh = any::b32(1).0;
    let same_key = wc == msg.source_chain && wi == msg.message_id;
    seed_status_if(!same_key, &wc, &wi, wstatus, &wh);
    let w0 = model::storage_writes();
    let ok = model::with_contract(&gw(), || {
        <AxelarGateway as AxelarGatewayMessagingInterface>::validate_message(
            env.clone(), caller.clone(), msg.source_chain.clone(), msg.message_id.clone(), msg.source_address.clone(), msg.payload_hash.clone())
    });
    kani::assert(model::auth_of(&caller), "VERIF:C07,C02,C16:message consumed only with the destination contract's authorisation");
    let conforming = status == 1 && msg_eq(&msg, &approved_for);
    kani::assert(ok == conforming, "VERIF:C02:consumption succeeds exactly for an approved, unexecuted, exactly matching message");
    if ok {
        kani::assert(status_is(&msg.source_chain, &msg.message_id, 2, &h_msg), "VERIF:C02:consumed message becomes executed");
        kani::assert(model::events_len() == 1 && model::event_contract(0) == gw()
            && model::event_topics(0) == model::topics_of(&(Symbol::new(&env, "message_executed"), msg.clone())), "VERIF:C02:exactly one message_executed event with the message");
        kani::cover!(true, "VERIF:reach:consumed");
    } else {
        kani::assert(model::storage_writes() == w0 && model::events_len() == 0, "VERIF:C02:refused consumption changes nothing");
        kani::assert(status_is(&msg.source_chain, &msg.message_id, status, &h_appr), "VERIF:C02:refused consumption leaves the status");
        kani::cover!(status == 1, "VERIF:reach:approved for something else");
        kani::cover!(status == 2, "VERIF:reach:already executed");
    }
    if !same_key {
        kani::assert(status_is(&wc, &wi, wstatus, &wh), "VERIF:C02:other message ids are untouched (key = (chain, id) as a pair)");
        kani::cover!(wc.len + wi.len == msg.source_chain.len + msg.message_id.len && wc.len != msg.source_chain.len, "VERIF:reach:witness with the same concatenation but another split");
    }
}

// HARNESS props=C02 tier=quick profile=gw_c02 shape="status queries on an arbitrary stored status"
#[kani::proof]
fn c02_queries_agree() {
    let env = Env::default();
    let msg = any_message(&env);
    let approved_for = any_message(&env);
    let h_msg = spec_msg_hash(&env, &msg);
    let h_appr = spec_msg_hash(&env, &approved_for);
    let status: u8 = kani::any();
    kani::assume(status <= 3);
    seed_status_if(true, &msg.source_chain, &msg.message_id, status, &h_appr);
    let w0 = model::storage_writes();
    let appr = model::with_contract(&gw(), || {
        <AxelarGateway as AxelarGatewayMessagingInterface>::is_message_approved(
            env.clone(), msg.source_chain.clone(), msg.message_id.clone(), msg.source_address.clone(), msg.contract_address.clone(), msg.payload_hash.clone())
    });
    let exec = model::with_contract(&gw(), || {
        <AxelarGateway as AxelarGatewayMessagingInterface>::is_message_executed(env.clone(), msg.source_chain.clone(), msg.message_id.clone())
    });
    kani::assert(appr == (status == 1 && msg_eq(&msg, &approved_for)), "VERIF:C02:is_message_approved agrees with the stored approval");
    kani::assert(exec == (status == 2), "VERIF:C02:is_message_executed agrees with the stored status");
    kani::assert(model::storage_writes() == w0 && model::events_len() == 0, "VERIF:C02:queries change nothing");
    kani::cover!(appr, "VERIF:reach:approved");
    kani::cover!(exec, "VERIF:reach:executed");
}

// HARNESS props=C02 tier=quick profile=gw_c02 mode=strict shape="conforming consumption: approved for exactly this message, caller authorised — must succeed without any trap"
#[kani::proof]
fn c02_consume_conforming_strict() {
    let env = Env::default();
    let msg = any_message(&env);
    let caller = msg.contract_address.clone();
    model::set_auth(&caller, true);
    let h_msg = spec_msg_hash(&env, &msg);
    seed_status_if(true, &msg.source_chain, &msg.message_id, 1, &h_msg);
    let ok = model::with_contract(&gw(), || {
        <AxelarGateway as AxelarGatewayMessagingInterface>::validate_message(
            env.clone(), caller.clone(), msg.source_chain.clone(), msg.message_id.clone(), msg.source_address.clone(), msg.payload_hash.clone())
    });
    kani::assert(ok, "VERIF:C02:an approved, unexecuted, exactly matching message is consumed by the contract it names");
    let again = model::with_contract(&gw(), || {
        <AxelarGateway as AxelarGatewayMessagingInterface>::validate_message(
            env.clone(), caller.clone(), msg.source_chain.clone(), msg.message_id.clone(), msg.source_address.clone(), msg.payload_hash.clone())
    });
    kani::assert(!again, "VERIF:C02:consuming a message succeeds exactly once");
    kani::cover!(true, "VERIF:reach:consumed once");
}
