// CHILD-OF: src/contract.rs
// ROBUST: names no storage key/value type of the gateway; the app, the helper and the gateway talk through their public entry points only
// ENCODES: AxelarExecutableInterface::validate_message (the real default method) calling the REAL AxelarGateway::validate_message across the contract boundary, after AxelarGateway::approve_messages, over a four-transaction history
// STUBS: auth::validate_proof -> accepts (its obligations: c01_*); the cross-contract hook of AxelarGatewayMessagingClient::validate_message dispatches to the real gateway entry point in the gateway's own context, with the host rule that the directly invoking contract is authorised by the invocation itself
// C16 end to end (no GatewaySpec in between): approve -> deliver -> replay the approval -> deliver again.
use super::*;
use crate::executable::AxelarExecutableInterface;
use crate::types::*;
use soroban_sdk::crypto::ideal_hash;
use soroban_sdk::model::{self, any};
use soroban_sdk::{Address, Bytes, BytesN, Env, String, Vec};

fn gw() -> Address {
    Address(1)
}
fn app() -> Address {
    Address(2)
}
fn stub_validate_proof(_env: &Env, _data_hash: &BytesN<32>, _proof: Proof) -> Result<bool, ContractError> {
    Ok(true)
}
fn real_gateway_validate_message(env: &Env, contract: &Address, caller: &Address, source_chain: &String, message_id: &String, source_address: &String, payload_hash: &BytesN<32>) -> bool {
    if *contract != gw() {
        model::spec_trap(); // no such contract
    }
    // host rule: the contract that makes the call is authorised as `caller` by the invocation itself
    let invoker = env.current_contract_address();
    let before = model::auth_of(caller);
    if *caller == invoker {
        model::set_auth(caller, true);
    }
    let r = model::with_contract(contract, || {
        <AxelarGateway as AxelarGatewayMessagingInterface>::validate_message(env.clone(), caller.clone(), source_chain.clone(), message_id.clone(), source_address.clone(), payload_hash.clone())
    });
    if *caller == invoker {
        model::set_auth(caller, before);
    }
    r
}
// the read-only queries are dispatched to the real gateway as well: an app/helper that merely *asks* is judged, not left inconclusive
fn real_gateway_is_message_approved(env: &Env, contract: &Address, source_chain: &String, message_id: &String, source_address: &String, contract_address: &Address, payload_hash: &BytesN<32>) -> bool {
    if *contract != gw() {
        model::spec_trap();
    }
    model::with_contract(contract, || {
        <AxelarGateway as AxelarGatewayMessagingInterface>::is_message_approved(env.clone(), source_chain.clone(), message_id.clone(), source_address.clone(), contract_address.clone(), payload_hash.clone())
    })
}
fn real_gateway_is_message_executed(env: &Env, contract: &Address, source_chain: &String, message_id: &String) -> bool {
    if *contract != gw() {
        model::spec_trap();
    }
    model::with_contract(contract, || <AxelarGateway as AxelarGatewayMessagingInterface>::is_message_executed(env.clone(), source_chain.clone(), message_id.clone()))
}
static mut EFFECTS: u32 = 0;
/// a minimal app that uses the interface's helper as documented; its "effect" is a counter
pub struct E2eApp;
impl AxelarExecutableInterface for E2eApp {
    fn gateway(_env: &Env) -> Address {
        gw()
    }
    fn execute(env: Env, source_chain: String, message_id: String, source_address: String, payload: Bytes) {
        if Self::validate_message(&env, &source_chain, &message_id, &source_address, &payload).is_ok() {
            unsafe {
                EFFECTS += 1;
            }
        }
    }
}
fn deliver(env: &Env, chain: &String, id: &String, src: &String, payload: &Bytes) -> bool {
    let before = unsafe { EFFECTS };
    model::with_contract(&app(), || E2eApp::execute(env.clone(), chain.clone(), id.clone(), src.clone(), payload.clone()));
    unsafe { EFFECTS == before + 1 }
}
// HARNESS props=C16,C02 tier=quick profile=gw_e2eapp shape="history of four transactions: gateway approves A (for any of 3 contracts); app is delivered D (any chain/id/source/payload, strings <=2, payload <=2 bytes); the approval batch is replayed, with the same or different content under A's id; D is delivered again"
#[kani::proof]
#[kani::stub(crate::auth::validate_proof, stub_validate_proof)]
#[kani::stub(crate::messaging_interface::xc_AxelarGatewayMessagingClient_validate_message, real_gateway_validate_message)]
#[kani::stub(crate::messaging_interface::xc_AxelarGatewayMessagingClient_is_message_approved, real_gateway_is_message_approved)]
#[kani::stub(crate::messaging_interface::xc_AxelarGatewayMessagingClient_is_message_executed, real_gateway_is_message_executed)]
fn c16_end_to_end_real_gateway() {
    let env = Env::default();
    any::auths();
    unsafe {
        EFFECTS = 0;
    }
    let a_payload = any::bytes(2);
    let a = Message {
        source_chain: any::string(2),
        message_id: any::string(2),
        source_address: any::string(2),
        contract_address: any::address(3),
        payload_hash: BytesN::from_array(&env, &ideal_hash(&a_payload.0)),
    };
    let proof = Proof { signers: Vec::new(&env), threshold: kani::any(), nonce: any::b32(1) };
    let r1 = model::with_contract(&gw(), || <AxelarGateway as AxelarGatewayInterface>::approve_messages(env.clone(), Vec::from_array(&env, [a.clone()]), proof.clone()));
    kani::assume(r1.is_ok());
    // the delivery
    let chain = any::string(2);
    let id = any::string(2);
    let src = any::string(2);
    let payload = any::bytes(2);
    let conforming = a.contract_address == app() && a.source_chain == chain && a.message_id == id && a.source_address == src && a_payload == payload;
    let d1 = deliver(&env, &chain, &id, &src, &payload);
    kani::assert(d1 == conforming, "VERIF:C16:a delivery takes effect exactly if the gateway approved this message for this app (same chain, id, source address, payload)");
    // replay: the same id again, same or different content
    let identical: bool = kani::any();
    let replay = if identical {
        a.clone()
    } else {
        Message {
            source_chain: a.source_chain.clone(),
            message_id: a.message_id.clone(),
            source_address: any::string(2),
            contract_address: any::address(3),
            payload_hash: any::b32(1),
        }
    };
    let r2 = model::with_contract(&gw(), || <AxelarGateway as AxelarGatewayInterface>::approve_messages(env.clone(), Vec::from_array(&env, [replay.clone()]), proof.clone()));
    kani::assume(r2.is_ok());
    let d2 = deliver(&env, &chain, &id, &src, &payload);
    kani::assert(!(d1 && d2), "VERIF:C16,C02:a message takes effect at most once, even when its approval is replayed afterwards");
    kani::assert(!d2 || conforming, "VERIF:C16,C02:replaying an approval under a known id with other content never makes another delivery acceptable");
    kani::cover!(d1, "VERIF:reach:first delivery took effect");
    kani::cover!(!d1, "VERIF:reach:first delivery refused");
}
