// CHILD-OF: src/auth.rs
// ENCODES: auth::validate_proof, auth::message_hash_to_sign, auth::epoch_by_signers_hash, auth::epoch, WeightedSigners::hash, Proof::weighted_signers
// STUBS: auth::validate_signatures -> recording stub with an arbitrary verdict (its own obligation is c01_sigs_*)
// C01 obligation O2 / C08: which set, which window, which digest.
use super::*;
use crate::types::*;
use soroban_sdk::crypto::ideal_hash;
use soroban_sdk::model::{self, any};
use soroban_sdk::xdr::ToXdr;
use soroban_sdk::{Address, Bytes, BytesN, Env, Vec};

const S: usize = 2;
fn gw() -> Address {
    Address(1)
}
static mut REC_CALLS: u32 = 0;
static mut REC_HASH: [u8; 32] = [0; 32];
static mut REC_RET: bool = false;
static mut REC_PROOF_OK: bool = false;
static mut EXPECT_PROOF: Option<Proof> = None;
fn stub_validate_signatures(_env: &Env, msg_hash: Hash<32>, proof: Proof) -> bool {
    unsafe {
        REC_CALLS += 1;
        REC_HASH = msg_hash.to_array();
        REC_PROOF_OK = match &EXPECT_PROOF {
            Some(p) => *p == proof,
            None => false,
        };
        REC_RET
    }
}
fn any_ws() -> WeightedSigner {
    WeightedSigner { signer: any::b32(S), weight: kani::any() }
}
fn any_set(env: &Env, n: usize) -> WeightedSigners {
    let mut v: Vec<WeightedSigner> = Vec::new(env);
    let mut i = 0;
    while i < n {
        v.push_back(any_ws());
        i += 1;
    }
    WeightedSigners { signers: v, threshold: kani::any(), nonce: any::b32(1) }
}
fn any_proof(env: &Env, n: usize) -> Proof {
    let mut ps: Vec<ProofSigner> = Vec::new(env);
    let mut i = 0;
    while i < n {
        let signed: bool = kani::any();
        let sig = any::b64(1);
        ps.push_back(ProofSigner { signer: any_ws(), signature: if signed { ProofSignature::Signed(sig) } else { ProofSignature::Unsigned } });
        i += 1;
    }
    Proof { signers: ps, threshold: kani::any(), nonce: any::b32(1) }
}

/// the proof's entries, one by one and in order, are exactly the installed set's members with their
/// weights, and threshold and nonce agree
fn proof_names(proof: &Proof, np: usize, inst: &WeightedSigners, n: usize) -> bool {
    if np != n || proof.signers.len() as usize != np || inst.signers.len() as usize != n {
        return false;
    }
    let mut same = proof.threshold == inst.threshold && proof.nonce == inst.nonce;
    let mut i = 0;
    while i < np {
        let a = proof.signers.at(i);
        let b = inst.signers.at(i);
        if a.signer.signer != b.signer || a.signer.weight != b.weight {
            same = false;
        }
        i += 1;
    }
    same
}
/// One installed set (N signers) at symbolic epoch s <= e; arbitrary proof with NP entries.
fn c01_wiring(n: usize, np: usize) -> u8 {
    let env = Env::default();
    unsafe {
        REC_CALLS = 0;
        REC_RET = kani::any();
    }
    let inst = any_set(&env, n);
    let e: u64 = kani::any();
    let s_ep: u64 = kani::any();
    kani::assume(1 <= s_ep && s_ep <= e);
    let r: u64 = kani::any();
    let domain = any::b32(1);
    let data_hash = any::b32(1);
    let proof = any_proof(&env, np);
    unsafe {
        EXPECT_PROOF = Some(proof.clone());
    }
    // specification digests first: H(xdr(set)), H(domain || H(xdr(set)) || data_hash)
    let sh = ideal_hash(&inst.clone().to_xdr(&env).0);
    let mut m: Bytes = domain.clone().into();
    m.extend_from_array(&sh);
    m.extend_from_array(&data_hash.to_array());
    let digest = ideal_hash(&m.0);
    model::with_contract(&gw(), || {
        env.storage().instance().set(&DataKey::Epoch, &e);
        env.storage().instance().set(&DataKey::PreviousSignerRetention, &r);
        env.storage().instance().set(&DataKey::DomainSeparator, &domain);
        env.storage().persistent().set(&DataKey::EpochBySignersHash(BytesN::from_array(&env, &sh)), &s_ep);
    });
    let w0 = model::storage_writes();
    let res = model::with_contract(&gw(), || validate_proof(&env, &data_hash, proof.clone()));
    // computed from the raw proof entries, NOT with the contract's own Proof::weighted_signers()
    let names_installed = proof_names(&proof, np, &inst, n);
    let outcome: u8;
    match res {
        Ok(latest) => {
            kani::assert(names_installed, "VERIF:C01:accepted proof names exactly an installed signer set (members, weights, threshold, nonce)");
            kani::assert(e - s_ep <= r, "VERIF:C08:accepted set is within the retention window");
            kani::assert(latest == (s_ep == e), "VERIF:C08:latest flag is true exactly for the newest set");
            kani::assert(unsafe { REC_CALLS == 1 && REC_RET }, "VERIF:C01:signatures were validated once and accepted");
            kani::assert(unsafe { REC_PROOF_OK }, "VERIF:C01:the submitted proof is what gets validated");
            kani::assert(unsafe { REC_HASH } == digest, "VERIF:C01:digest binds domain separator, signer-set hash and data hash");
            outcome = if s_ep < e { 1 } else { 2 };
        }
        Err(_) => {
            // completeness of the wiring: an installed, retained set with accepted signatures is honoured
            kani::assert(!(names_installed && e - s_ep <= r && unsafe { REC_RET }), "VERIF:C08:a proof from a retained installed set with valid signatures is honoured");
            outcome = if names_installed && e - s_ep > r { 3 } else if !names_installed { 4 } else { 5 };
        }
    }
    kani::assert(model::storage_writes() == w0 && model::events_len() == 0, "VERIF:C01:proof validation changes nothing");
    outcome
}
fn covers_matching(o: u8) {
    kani::cover!(o == 1, "VERIF:reach:older retained set accepted");
    kani::cover!(o == 2, "VERIF:reach:latest set accepted");
    kani::cover!(o == 3, "VERIF:reach:outdated set refused");
    kani::cover!(o == 4, "VERIF:reach:unknown set refused");
}
// HARNESS props=C01,C08 tier=quick profile=gw_wire1 shape="installed set N=1, proof with 1 entry; epochs/retention full u64; key bytes S=2"
#[kani::proof]
#[kani::stub(validate_signatures, stub_validate_signatures)]
fn c01_wiring_n1() {
    covers_matching(c01_wiring(1, 1))
}
// HARNESS props=C01,C08 tier=quick profile=gw_wire2 shape="installed set N=2, proof with 2 entries"
#[kani::proof]
#[kani::stub(validate_signatures, stub_validate_signatures)]
fn c01_wiring_n2() {
    covers_matching(c01_wiring(2, 2))
}
// HARNESS props=C01 tier=quick profile=gw_wire2 shape="installed set N=2, proof with 1 entry (dropped signer)"
#[kani::proof]
#[kani::stub(validate_signatures, stub_validate_signatures)]
fn c01_wiring_n2_p1() {
    let o = c01_wiring(2, 1);
    kani::cover!(o == 4, "VERIF:reach:proof with a dropped signer refused");
}
// HARNESS props=C01 tier=quick profile=gw_wire2 shape="installed set N=1, proof with 2 entries (added/duplicated signer)"
#[kani::proof]
#[kani::stub(validate_signatures, stub_validate_signatures)]
fn c01_wiring_n1_p2() {
    let o = c01_wiring(1, 2);
    kani::cover!(o == 4, "VERIF:reach:proof with an added signer refused");
}

// HARNESS props=C01,C08 tier=quick profile=gw_wire3 shape="installed set N=3, proof with 3 entries"
#[kani::proof]
#[kani::stub(validate_signatures, stub_validate_signatures)]
fn c01_wiring_n3() {
    covers_matching(c01_wiring(3, 3))
}

/// completeness, strict: a proof that names the installed set verbatim, inside the window, with accepted
/// signatures is honoured — and no trap (overflow, missing key) is reachable on the way.
fn c08_honoured(n: usize) {
    let env = Env::default();
    unsafe {
        REC_CALLS = 0;
        REC_RET = true;
    }
    let inst = any_set(&env, n);
    let e: u64 = kani::any();
    let s_ep: u64 = kani::any();
    let r: u64 = kani::any();
    kani::assume(1 <= s_ep && s_ep <= e && e - s_ep <= r);
    let domain = any::b32(1);
    let data_hash = any::b32(1);
    let mut ps: Vec<ProofSigner> = Vec::new(&env);
    let mut i = 0;
    while i < n {
        let signed: bool = kani::any();
        ps.push_back(ProofSigner { signer: inst.signers.at(i).clone(), signature: if signed { ProofSignature::Signed(any::b64(1)) } else { ProofSignature::Unsigned } });
        i += 1;
    }
    let proof = Proof { signers: ps, threshold: inst.threshold, nonce: inst.nonce.clone() };
    unsafe {
        EXPECT_PROOF = Some(proof.clone());
    }
    let sh = ideal_hash(&inst.clone().to_xdr(&env).0);
    model::with_contract(&gw(), || {
        env.storage().instance().set(&DataKey::Epoch, &e);
        env.storage().instance().set(&DataKey::PreviousSignerRetention, &r);
        env.storage().instance().set(&DataKey::DomainSeparator, &domain);
        env.storage().instance().set(&DataKey::MinimumRotationDelay, &kani::any::<u64>());
        env.storage().persistent().set(&DataKey::EpochBySignersHash(BytesN::from_array(&env, &sh)), &s_ep);
    });
    let res = model::with_contract(&gw(), || validate_proof(&env, &data_hash, proof.clone()));
    kani::assert(res == Ok(s_ep == e), "VERIF:C08,C01:a proof from an installed set inside the retention window is honoured for every retention setting (0 .. u64::MAX) and every epoch");
    kani::cover!(s_ep < e && r == u64::MAX, "VERIF:reach:old set honoured under an unlimited retention");
    kani::cover!(s_ep == e && r == 0, "VERIF:reach:latest set honoured under retention 0");
}
// HARNESS props=C08,C01 tier=quick profile=gw_wire1 mode=strict shape="honest proof naming the installed set (N=1) inside the window; epochs and retention full u64"
#[kani::proof]
#[kani::stub(validate_signatures, stub_validate_signatures)]
fn c08_honoured_strict_n1() {
    c08_honoured(1)
}
