// CHILD-OF: src/auth.rs
// ENCODES: auth::update_rotation_timestamp
// C09 — rotation clock: non-bypass rotations need `now - last >= minimum delay`; every success
// restarts the clock; a refusal leaves it.  Time, delay and previous timestamp are full-width u64.
use super::*;
use soroban_sdk::{model, Address, IntoVal, Val};

fn key(k: &DataKey) -> Val {
    k.into_val(&Env)
}

// HARNESS props=C09 tier=quick profile=gw_xs shape="delay,last,now: full u64; last present/absent; enforce symbolic"
#[kani::proof]
fn c09_update_rotation_timestamp() {
    let env = Env::default();
    let gw = Address(1);
    let d: u64 = kani::any();
    let has_t0: bool = kani::any();
    let t0: u64 = kani::any();
    let t: u64 = kani::any();
    let enforce: bool = kani::any();
    model::set_ledger(t, kani::any());
    model::with_contract(&gw, || {
        env.storage().instance().set(&DataKey::MinimumRotationDelay, &d);
        model::storage_set_if(has_t0, &gw, 0, &key(&DataKey::LastRotationTimestamp), &model::val_of(&t0));
    });
    let last = if has_t0 { t0 } else { 0 };
    let r = model::with_contract(&gw, || update_rotation_timestamp(&env, enforce));
    let stored: Option<Val> = model::storage_get(&gw, 0, &key(&DataKey::LastRotationTimestamp));
    match r {
        Ok(()) => {
            if enforce {
                kani::assert(t >= last && t - last >= d, "VERIF:C09:non-bypass rotation only after the minimum delay");
            }
            kani::assert(stored == Some(model::val_of(&t)), "VERIF:C09:success restarts the clock at the current time");
            kani::cover!(enforce && d > 0, "VERIF:reach:enforced rotation accepted with non-zero delay");
            kani::cover!(!enforce, "VERIF:reach:bypass accepted");
        }
        Err(_) => {
            kani::assert(enforce, "VERIF:C09:bypass never fails on the delay");
            kani::assert(t - last < d, "VERIF:C09:refused only when the delay has not elapsed");
            let unchanged = if has_t0 { stored == Some(model::val_of(&t0)) } else { stored.is_none() };
            kani::assert(unchanged, "VERIF:C09:refusal leaves the clock");
            kani::cover!(true, "VERIF:reach:refused");
        }
    }
}
