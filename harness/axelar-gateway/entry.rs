// CHILD-OF: src/contract.rs
// ENCODES: AxelarGateway::approve_messages, AxelarGateway::rotate_signers, AxelarGateway::validate_proof (entry), message_approval_by_key, message_approval_hash, event::approve_message
// STUBS: auth::validate_proof -> recording stub with an arbitrary result (its obligations: c01_wiring_*, c01_sigs_*); auth::rotate_signers -> recording stub (its obligation: c03_rotate_*) in the rotate entry harness only
// C01 obligation O3, C02 approval side, C03 (iii) entry wiring, C08 bypass rule, C06/C09 bypass authorisation.
use super::*;
use crate::types::*;
use soroban_sdk::crypto::ideal_hash;
use soroban_sdk::model::{self, any};
use soroban_sdk::xdr::ToXdr;
use soroban_sdk::{Address, BytesN, Env, IntoVal, Symbol, Val, Vec};

fn gw() -> Address {
    Address(1)
}
// ---- recording stub for auth::validate_proof
static mut VP_CALLS: u32 = 0;
static mut VP_HASH: [u8; 32] = [0; 32];
static mut VP_OK: bool = false;
static mut VP_LATEST: bool = false;
static mut VP_PROOF_OK: bool = false;
static mut VP_WRITES_AT_CALL: u32 = 0;
static mut VP_EXPECT: Option<Proof> = None;
fn stub_validate_proof(_env: &Env, data_hash: &BytesN<32>, proof: Proof) -> Result<bool, ContractError> {
    unsafe {
        VP_CALLS += 1;
        VP_HASH = data_hash.to_array();
        VP_PROOF_OK = match &VP_EXPECT {
            Some(p) => *p == proof,
            None => false,
        };
        VP_WRITES_AT_CALL = model::storage_writes();
        if VP_OK {
            Ok(VP_LATEST)
        } else {
            Err(ContractError::InvalidSignatures)
        }
    }
}
fn empty_proof(env: &Env) -> Proof {
    Proof { signers: Vec::new(env), threshold: kani::any(), nonce: any::b32(1) }
}
fn arm_vp(proof: &Proof) {
    unsafe {
        VP_CALLS = 0;
        VP_OK = kani::any();
        VP_LATEST = kani::any();
        VP_EXPECT = Some(proof.clone());
    }
}

fn any_message(env: &Env) -> Message {
    Message {
        source_chain: any::string(2),
        message_id: any::string(2),
        source_address: any::string(2),
        contract_address: any::address(3),
        payload_hash: any::b32(1),
    }
}
fn key_of(chain: &String, id: &String) -> Val {
    DataKey::MessageApproval(MessageApprovalKey { source_chain: chain.clone(), message_id: id.clone() }).into_val(&Env)
}
fn seed_status_if(cond: bool, chain: &String, id: &String, status: u8, h: &[u8; 32]) {
    let v: Option<MessageApprovalValue> = match status {
        1 => Some(MessageApprovalValue::Approved(BytesN(*h))),
        2 => Some(MessageApprovalValue::Executed),
        _ => None,
    };
    let present = v.is_some();
    let v = v.unwrap_or(MessageApprovalValue::NotApproved);
    model::storage_set_if(present && cond, &gw(), 1, &key_of(chain, id), &model::val_of(&v));
}
fn status_is(chain: &String, id: &String, status: u8, h: &[u8; 32]) -> bool {
    let got = model::storage_get(&gw(), 1, &key_of(chain, id));
    match status {
        1 => got == Some(model::val_of(&MessageApprovalValue::Approved(BytesN(*h)))),
        2 => got == Some(model::val_of(&MessageApprovalValue::Executed)),
        _ => got.is_none(),
    }
}
fn same_key(a: &Message, b: &Message) -> bool {
    a.source_chain == b.source_chain && a.message_id == b.message_id
}

/// approve_messages with a batch of M messages; every message key has an arbitrary prior status.
fn c02_approve(m: usize) -> u8 {
    let env = Env::default();
    let proof = empty_proof(&env);
    arm_vp(&proof);
    let mut msgs: Vec<Message> = Vec::new(&env);
    let mut i = 0;
    while i < m {
        msgs.push_back(any_message(&env));
        i += 1;
    }
    // specification hashes first
    let spec_data_hash = ideal_hash(&(CommandType::ApproveMessages, msgs.clone()).to_xdr(&env).0);
    let mut mh = [[0u8; 32]; 2];
    i = 0;
    while i < m {
        mh[i] = ideal_hash(&msgs.at(i).clone().to_xdr(&env).0);
        i += 1;
    }
    // prior status of each batch key (the second only if it is a different key)
    let mut st = [0u8; 2];
    let mut sh = [[0u8; 32]; 2];
    i = 0;
    while i < m {
        st[i] = kani::any();
        kani::assume(st[i] <= 2);
        sh[i] = any::b32(1).0;
        let distinct = i == 0 || !same_key(msgs.at(0), msgs.at(i));
        seed_status_if(distinct, &msgs.at(i).source_chain, &msgs.at(i).message_id, st[i], &sh[i]);
        if !distinct {
            st[i] = st[0];
            sh[i] = sh[0];
        }
        i += 1;
    }
    // witness key outside the batch
    let wc = any::string(2);
    let wi = any::string(2);
    let wst: u8 = kani::any();
    kani::assume(wst <= 2);
    let wh = any::b32(1).0;
    let mut w_in_batch = false;
    i = 0;
    while i < m {
        if wc == msgs.at(i).source_chain && wi == msgs.at(i).message_id {
            w_in_batch = true;
        }
        i += 1;
    }
    seed_status_if(!w_in_batch, &wc, &wi, wst, &wh);
    let w0 = model::storage_writes();
    let outcome: u8;
    let res = model::with_contract(&gw(), || {
        <AxelarGateway as AxelarGatewayInterface>::approve_messages(env.clone(), msgs.clone(), proof.clone())
    });
    match res {
        Ok(()) => {
            kani::assert(unsafe { VP_CALLS == 1 && VP_OK }, "VERIF:C01:approval completes only after the proof was validated and accepted");
            kani::assert(unsafe { VP_PROOF_OK }, "VERIF:C01:the submitted proof is the one validated");
            kani::assert(unsafe { VP_HASH } == spec_data_hash, "VERIF:C01:proof is checked against keccak(xdr(ApproveMessages, exactly this batch))");
            kani::assert(unsafe { VP_WRITES_AT_CALL } == w0, "VERIF:C01:nothing is written before the proof is validated");
            kani::assert(m > 0, "VERIF:C01:empty batch is rejected");
            // sequential specification: first occurrence of a not-yet-known key wins
            let mut nev = 0usize;
            let mut j = 0;
            while j < m {
                let dup_of_earlier = j > 0 && same_key(msgs.at(0), msgs.at(j));
                let mj = msgs.at(j);
                if dup_of_earlier {
                    // status decided by message 0 (if it was fresh) or by the prior status
                    if st[0] == 0 {
                        kani::assert(status_is(&mj.source_chain, &mj.message_id, 1, &mh[0]), "VERIF:C02:in-batch duplicate does not overwrite the first approval");
                    }
                } else if st[j] == 0 {
                    kani::assert(status_is(&mj.source_chain, &mj.message_id, 1, &mh[j]), "VERIF:C02:fresh id becomes approved with the hash of the full message");
                    kani::assert(nev < model::events_len() && model::event_contract(nev) == gw()
                        && model::event_topics(nev) == model::topics_of(&(Symbol::new(&env, "message_approved"), mj.clone())), "VERIF:C02:one message_approved event per newly approved message, in order");
                    nev += 1;
                } else {
                    kani::assert(status_is(&mj.source_chain, &mj.message_id, st[j], &sh[j]), "VERIF:C02,C16:re-approval of a known id (approved or executed) changes nothing");
                }
                j += 1;
            }
            kani::assert(model::events_len() == nev, "VERIF:C02:no approval event for known ids or duplicates");
            outcome = if nev == m { 1 } else if nev == 0 { 2 } else { 3 };
        }
        Err(_) => {
            kani::assert(unsafe { !VP_OK } || m == 0, "VERIF:C01:a batch with an accepted proof is approved");
            outcome = 0;
        }
    }
    if !w_in_batch {
        kani::assert(status_is(&wc, &wi, wst, &wh), "VERIF:C02:ids outside the batch are untouched");
    }
    outcome
}
// HARNESS props=C02,C01,C16 tier=quick profile=gw_appr1 shape="batch M=1; arbitrary prior status; witness key; strings <=2 bytes"
#[kani::proof]
#[kani::stub(crate::auth::validate_proof, stub_validate_proof)]
fn c02_approve_m1() {
    let o = c02_approve(1);
    kani::cover!(o == 1, "VERIF:reach:all fresh");
    kani::cover!(o == 2, "VERIF:reach:all known");
    kani::cover!(o == 0, "VERIF:reach:batch refused");
}
// HARNESS props=C02,C01 tier=quick profile=gw_appr1 shape="empty batch"
#[kani::proof]
#[kani::stub(crate::auth::validate_proof, stub_validate_proof)]
fn c02_approve_m0() {
    let o = c02_approve(0);
    kani::cover!(o == 0, "VERIF:reach:empty batch refused");
}
// HARNESS props=C02,C01 tier=quick profile=gw_appr2 shape="batch M=2 incl. in-batch duplicates"
#[kani::proof]
#[kani::stub(crate::auth::validate_proof, stub_validate_proof)]
fn c02_approve_m2() {
    let o = c02_approve(2);
    kani::cover!(o == 1, "VERIF:reach:all fresh");
    kani::cover!(o == 2, "VERIF:reach:all known");
    kani::cover!(o == 3, "VERIF:reach:mixed batch");
    kani::cover!(o == 0, "VERIF:reach:batch refused");
}

// ---- recording stub for auth::rotate_signers
static mut RS_CALLS: u32 = 0;
static mut RS_ENFORCE: bool = false;
static mut RS_SET_OK: bool = false;
static mut RS_OK: bool = false;
static mut RS_EXPECT: Option<WeightedSigners> = None;
static mut RS_VP_CALLS_AT: u32 = 0;
fn stub_rotate_signers(_env: &Env, new_signers: &WeightedSigners, enforce_rotation_delay: bool) -> Result<(), ContractError> {
    unsafe {
        RS_CALLS += 1;
        RS_ENFORCE = enforce_rotation_delay;
        RS_SET_OK = match &RS_EXPECT {
            Some(s) => *s == *new_signers,
            None => false,
        };
        RS_VP_CALLS_AT = VP_CALLS;
        if RS_OK {
            Ok(())
        } else {
            Err(ContractError::DuplicateSigners)
        }
    }
}
fn any_set(env: &Env, n: usize) -> WeightedSigners {
    let mut v: Vec<WeightedSigner> = Vec::new(env);
    let mut i = 0;
    while i < n {
        v.push_back(WeightedSigner { signer: any::b32(2), weight: kani::any() });
        i += 1;
    }
    WeightedSigners { signers: v, threshold: kani::any(), nonce: any::b32(1) }
}
// HARNESS props=C03,C08,C06,C09,C01 tier=quick profile=gw_rot shape="candidate set N=1; bypass symbolic; operator one of 3 principals; arbitrary auths"
#[kani::proof]
#[kani::stub(crate::auth::validate_proof, stub_validate_proof)]
#[kani::stub(crate::auth::rotate_signers, stub_rotate_signers)]
fn c03_rotate_entry() {
    let env = Env::default();
    any::auths();
    let proof = empty_proof(&env);
    arm_vp(&proof);
    let set = any_set(&env, 1);
    unsafe {
        RS_CALLS = 0;
        RS_OK = kani::any();
        RS_EXPECT = Some(set.clone());
    }
    let operator = any::address(3);
    model::with_contract(&gw(), || axelar_soroban_std::interfaces::set_operator(&env, &operator));
    let bypass: bool = kani::any();
    let spec_data_hash = ideal_hash(&(CommandType::RotateSigners, set.clone()).to_xdr(&env).0);
    let res = model::with_contract(&gw(), || {
        <AxelarGateway as AxelarGatewayInterface>::rotate_signers(env.clone(), set.clone(), proof.clone(), bypass)
    });
    match res {
        Ok(()) => {
            kani::assert(unsafe { VP_CALLS == 1 && VP_OK && VP_PROOF_OK }, "VERIF:C03:rotation completes only after the submitted proof was validated and accepted");
            kani::assert(unsafe { VP_HASH } == spec_data_hash, "VERIF:C03:proof is checked against keccak(xdr(RotateSigners, exactly the candidate set))");
            kani::assert(bypass || unsafe { VP_LATEST }, "VERIF:C08:without bypass only the newest signer set can authorise a rotation");
            kani::assert(!bypass || model::auth_of(&operator), "VERIF:C06,C09,C03:bypassing the rotation delay needs the current operator's authorisation");
            kani::assert(unsafe { RS_CALLS == 1 && RS_OK && RS_SET_OK }, "VERIF:C03:exactly the candidate set is installed, once");
            kani::assert(unsafe { RS_VP_CALLS_AT == 1 }, "VERIF:C03:the set is installed only after proof validation");
            kani::assert(unsafe { RS_ENFORCE } == !bypass, "VERIF:C09:the delay is enforced exactly when the operator does not bypass it");
            kani::cover!(bypass, "VERIF:reach:bypass rotation");
            kani::cover!(!bypass, "VERIF:reach:ordinary rotation");
        }
        Err(_) => {
            kani::assert(!(unsafe { VP_OK && RS_OK } && (bypass || unsafe { VP_LATEST })), "VERIF:C03:an authorised rotation of an installable set succeeds");
            kani::cover!(true, "VERIF:reach:rotation refused");
        }
    }
}

// HARNESS props=C01 tier=quick profile=gw_rot shape="standalone proof check entry point"
#[kani::proof]
#[kani::stub(crate::auth::validate_proof, stub_validate_proof)]
fn c01_validate_proof_entry() {
    let env = Env::default();
    let proof = empty_proof(&env);
    arm_vp(&proof);
    let dh = any::b32(2);
    let w0 = model::storage_writes();
    let res = model::with_contract(&gw(), || <AxelarGateway as AxelarGatewayInterface>::validate_proof(&env, dh.clone(), proof.clone()));
    kani::assert(unsafe { VP_CALLS == 1 && VP_PROOF_OK && VP_HASH == dh.0 }, "VERIF:C01:standalone check validates exactly the given proof against exactly the given data hash");
    kani::assert(res.is_ok() == unsafe { VP_OK } && (res.is_err() || res == Ok(unsafe { VP_LATEST })), "VERIF:C01:standalone check reports the validation result unchanged");
    kani::assert(model::storage_writes() == w0 && model::events_len() == 0, "VERIF:C01:standalone check changes nothing");
    kani::cover!(res.is_ok(), "VERIF:reach:standalone accepted");
}

// HARNESS props=C03,C06,C08,C09 tier=quick profile=gw_init shape="AxelarGateway::__constructor with one initial set: roles and configuration land where they belong"
#[kani::proof]
fn c03_gateway_constructor() {
    let env = Env::default();
    let owner = any::address(4);
    let operator = any::address(4);
    let domain = any::b32(2);
    let d: u64 = kani::any();
    let r: u64 = kani::any();
    let t: u64 = kani::any();
    model::set_ledger(t, kani::any());
    let set = any_set(&env, 1);
    let h = ideal_hash(&set.clone().to_xdr(&env).0);
    let sets: Vec<WeightedSigners> = Vec::from_array(&env, [set.clone()]);
    let res = model::with_contract(&gw(), || AxelarGateway::__constructor(env.clone(), owner.clone(), operator.clone(), domain.clone(), d, r, sets.clone()));
    if res.is_ok() {
        use axelar_soroban_std::interfaces::{OperatableInterface as _, OwnableInterface as _};
        let (o, p, e, eh, he) = model::with_contract(&gw(), || {
            (
                AxelarGateway::owner(&env),
                AxelarGateway::operator(&env),
                <AxelarGateway as AxelarGatewayInterface>::epoch(&env),
                <AxelarGateway as AxelarGatewayInterface>::epoch_by_signers_hash(&env, BytesN(h)),
                <AxelarGateway as AxelarGatewayInterface>::signers_hash_by_epoch(&env, 1),
            )
        });
        kani::assert(o == owner && p == operator, "VERIF:C06:construction installs exactly the given owner and operator");
        kani::assert(e == 1 && eh == Ok(1) && he == Ok(BytesN(h)), "VERIF:C03:after construction the epoch and both lookup queries report the initial set at epoch 1");
        let k = |d: &DataKey| -> Val { d.into_val(&Env) };
        kani::assert(model::storage_get(&gw(), 0, &k(&DataKey::PreviousSignerRetention)) == Some(model::val_of(&r)), "VERIF:C08:the retention window is exactly the configured one");
        kani::assert(model::storage_get(&gw(), 0, &k(&DataKey::MinimumRotationDelay)) == Some(model::val_of(&d))
            && model::storage_get(&gw(), 0, &k(&DataKey::LastRotationTimestamp)) == Some(model::val_of(&t)), "VERIF:C09:the minimum delay is exactly the configured one and the clock starts at deployment");
        kani::assert(model::storage_get(&gw(), 0, &k(&DataKey::DomainSeparator)) == Some(model::val_of(&domain)), "VERIF:C03:the domain separator is stored as given");
        kani::cover!(owner != operator, "VERIF:reach:gateway constructed");
    }
}

// HARNESS props=C03,C06 tier=quick profile=gw_init mode=strict shape="AxelarGateway::__constructor with one WELL-FORMED initial set (N=1), any configuration: construction must succeed and every public query must answer — nothing may trap or fail"
#[kani::proof]
fn c03_gateway_constructor_strict() {
    let env = Env::default();
    let owner = any::address(4);
    let operator = any::address(4);
    model::set_ledger(kani::any(), kani::any());
    let set = any_set(&env, 1);
    let s0 = set.signers.at(0).clone();
    kani::assume(s0.signer.0 != [0u8; 32] && s0.weight != 0 && set.threshold != 0 && set.threshold <= s0.weight);
    let h = ideal_hash(&set.clone().to_xdr(&env).0);
    let res = model::with_contract(&gw(), || AxelarGateway::__constructor(env.clone(), owner.clone(), operator.clone(), any::b32(2), kani::any(), kani::any(), Vec::from_array(&env, [set.clone()])));
    kani::assert(res.is_ok(), "VERIF:C03:a gateway with a well-formed initial set can be constructed");
    use axelar_soroban_std::interfaces::{OperatableInterface as _, OwnableInterface as _};
    let (o, p, e, eh, he) = model::with_contract(&gw(), || {
        (
            AxelarGateway::owner(&env),
            AxelarGateway::operator(&env),
            <AxelarGateway as AxelarGatewayInterface>::epoch(&env),
            <AxelarGateway as AxelarGatewayInterface>::epoch_by_signers_hash(&env, BytesN(h)),
            <AxelarGateway as AxelarGatewayInterface>::signers_hash_by_epoch(&env, 1),
        )
    });
    kani::assert(o == owner && p == operator, "VERIF:C06:construction installs exactly the given owner and operator");
    kani::assert(e == 1 && eh == Ok(1) && he == Ok(BytesN(h)), "VERIF:C03:after construction the epoch and both lookup queries report the initial set at epoch 1");
    kani::cover!(owner != operator, "VERIF:reach:gateway constructed (strict)");
}

// HARNESS props=C03 tier=quick profile=gw_rot1 shape="lookup queries on an arbitrary seeded state"
#[kani::proof]
fn c03_lookup_queries() {
    let env = Env::default();
    let e: u64 = kani::any();
    let hq = any::b32(2);
    let kq: u64 = kani::any();
    let h_present: bool = kani::any();
    let h_epoch: u64 = kani::any();
    let k_present: bool = kani::any();
    let k_hash = any::b32(2);
    let key = |d: &DataKey| -> Val { d.into_val(&Env) };
    model::storage_set(&gw(), 0, &key(&DataKey::Epoch), &model::val_of(&e));
    model::storage_set_if(h_present, &gw(), 1, &key(&DataKey::EpochBySignersHash(hq.clone())), &model::val_of(&h_epoch));
    model::storage_set_if(k_present, &gw(), 1, &key(&DataKey::SignersHashByEpoch(kq)), &model::val_of(&k_hash));
    let w0 = model::storage_writes();
    let (qe, qh, qk) = model::with_contract(&gw(), || {
        (
            <AxelarGateway as AxelarGatewayInterface>::epoch(&env),
            <AxelarGateway as AxelarGatewayInterface>::epoch_by_signers_hash(&env, hq.clone()),
            <AxelarGateway as AxelarGatewayInterface>::signers_hash_by_epoch(&env, kq),
        )
    });
    kani::assert(qe == e, "VERIF:C03:epoch() reports the stored epoch");
    kani::assert(if h_present { qh == Ok(h_epoch) } else { qh.is_err() }, "VERIF:C03:epoch_by_signers_hash reports exactly the stored mapping");
    kani::assert(if k_present { qk == Ok(k_hash.clone()) } else { qk.is_err() }, "VERIF:C03:signers_hash_by_epoch reports exactly the stored mapping");
    kani::assert(model::storage_writes() == w0, "VERIF:C03:lookups change nothing");
    kani::cover!(h_present && k_present, "VERIF:reach:both lookups hit");
}
