// CHILD-OF: src/auth.rs
// ENCODES: auth::validate_signers
// C03 (i) well-formedness kernel (kept in its own file so that a rename elsewhere in auth.rs does not take it down).
use super::*;
use crate::types::*;
use soroban_sdk::crypto::{ideal_hash, oracle_preset, oracle_verified};
use soroban_sdk::model::{self, any};
use soroban_sdk::xdr::ToXdr;
use soroban_sdk::{Address, Bytes, BytesN, Env, Vec};

const S: usize = 2; // symbolic leading bytes per 32-byte key

fn gw() -> Address {
    Address(1)
}
fn any_ws() -> WeightedSigner {
    WeightedSigner { signer: any::b32(S), weight: kani::any() }
}
fn any_set(env: &Env, n: usize) -> WeightedSigners {
    let mut v: Vec<WeightedSigner> = Vec::new(env);
    let mut i = 0;
    while i < n {
        v.push_back(any_ws());
        i += 1;
    }
    WeightedSigners { signers: v, threshold: kani::any(), nonce: any::b32(1) }
}
/// the statement's well-formedness predicate, written independently of the code
fn well_formed(ws: &WeightedSigners, n: usize) -> bool {
    if n == 0 {
        return false;
    }
    let mut ok = true;
    let mut total: u128 = 0;
    let mut overflow = false;
    let mut prev = [0u8; 32];
    let mut i = 0;
    while i < n {
        let s = ws.signers.at(i);
        if !(prev < s.signer.0) {
            ok = false;
        }
        if s.weight == 0 {
            ok = false;
        }
        match total.checked_add(s.weight) {
            Some(t) => total = t,
            None => overflow = true,
        }
        prev = s.signer.0;
        i += 1;
    }
    ok && !overflow && ws.threshold != 0 && total >= ws.threshold
}

// ------------------------------------------------------------------ C03 (i)
fn c03_validate_signers(n: usize) {
    let env = Env::default();
    let ws = any_set(&env, n);
    let r = validate_signers(&env, &ws);
    kani::assert(r.is_ok() == well_formed(&ws, n), "VERIF:C03:a signer set is accepted exactly when it is well-formed");
    kani::cover!(r.is_ok() || n == 0, "VERIF:reach:accepted set");
    kani::cover!(r.is_err(), "VERIF:reach:rejected set");
}
// HARNESS props=C03 tier=quick profile=gw_sig mode=strict shape="N=0 signers"
#[kani::proof]
fn c03_validate_signers_n0() {
    c03_validate_signers(0)
}
// HARNESS props=C03 tier=quick profile=gw_sig mode=strict shape="N=1; key 2 symbolic bytes, weight/threshold full u128"
#[kani::proof]
fn c03_validate_signers_n1() {
    c03_validate_signers(1)
}
// HARNESS props=C03 tier=quick profile=gw_sig mode=strict shape="N=2"
#[kani::proof]
fn c03_validate_signers_n2() {
    c03_validate_signers(2)
}
// HARNESS props=C03 tier=quick profile=gw_sig mode=strict shape="N=3"
#[kani::proof]
fn c03_validate_signers_n3() {
    c03_validate_signers(3)
}

// HARNESS props=C03 tier=thorough profile=gw_sig4 mode=strict shape="N=4"
#[kani::proof]
fn c03_validate_signers_n4() {
    c03_validate_signers(4)
}
