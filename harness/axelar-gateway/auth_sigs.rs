// CHILD-OF: src/auth.rs
// ENCODES: auth::validate_signatures, auth::validate_proof, auth::message_hash_to_sign, auth::epoch_by_signers_hash, WeightedSigners::hash, Proof::weighted_signers
// STUBS: validate_signatures -> recording stub returning an arbitrary verdict (only in the wiring obligation O2)
// C01 (O1 signature loop, O2 wiring), C03 (i) well-formedness kernel, C08 retention window.
use super::*;
use crate::types::*;
use soroban_sdk::crypto::{ideal_hash, oracle_preset, oracle_verified};
use soroban_sdk::model::{self, any};
use soroban_sdk::xdr::ToXdr;
use soroban_sdk::{Address, Bytes, BytesN, Env, Vec};

const S: usize = 2; // symbolic leading bytes per 32-byte key

fn gw() -> Address {
    Address(1)
}
fn any_ws() -> WeightedSigner {
    WeightedSigner { signer: any::b32(S), weight: kani::any() }
}
fn any_set(env: &Env, n: usize) -> WeightedSigners {
    let mut v: Vec<WeightedSigner> = Vec::new(env);
    let mut i = 0;
    while i < n {
        v.push_back(any_ws());
        i += 1;
    }
    WeightedSigners { signers: v, threshold: kani::any(), nonce: any::b32(1) }
}
/// the statement's well-formedness predicate, written independently of the code
fn well_formed(ws: &WeightedSigners, n: usize) -> bool {
    if n == 0 {
        return false;
    }
    let mut ok = true;
    let mut total: u128 = 0;
    let mut overflow = false;
    let mut prev = [0u8; 32];
    let mut i = 0;
    while i < n {
        let s = ws.signers.at(i);
        if !(prev < s.signer.0) {
            ok = false;
        }
        if s.weight == 0 {
            ok = false;
        }
        match total.checked_add(s.weight) {
            Some(t) => total = t,
            None => overflow = true,
        }
        prev = s.signer.0;
        i += 1;
    }
    ok && !overflow && ws.threshold != 0 && total >= ws.threshold
}

// ------------------------------------------------------------------ C01 O1: signature loop
fn any_proof(env: &Env, n: usize) -> Proof {
    let mut ps: Vec<ProofSigner> = Vec::new(env);
    let mut i = 0;
    while i < n {
        let signed: bool = kani::any();
        let sig = any::b64(1);
        ps.push_back(ProofSigner { signer: any_ws(), signature: if signed { ProofSignature::Signed(sig) } else { ProofSignature::Unsigned } });
        i += 1;
    }
    Proof { signers: ps, threshold: kani::any(), nonce: any::b32(1) }
}
/// soundness: accepted => the weight of entries whose exact (key, digest, signature) triple the
/// oracle declared valid reaches the threshold.  The oracle is arbitrary (demonic).
fn c01_sigs_sound(n: usize) {
    let env = Env::default();
    let proof = any_proof(&env, n);
    let digest = any::b32(2);
    let accepted = validate_signatures(&env, Hash(digest.clone()), proof.clone());
    if accepted {
        let mut total: u128 = 0;
        let mut sat = false;
        let mut i = 0;
        while i < n {
            let p = proof.signers.at(i);
            if let ProofSignature::Signed(sig) = &p.signature {
                if oracle_verified(&p.signer.signer.0, &digest.0, &sig.0) {
                    match total.checked_add(p.signer.weight) {
                        Some(t) => total = t,
                        None => sat = true,
                    }
                }
            }
            i += 1;
        }
        kani::assert(sat || total >= proof.threshold, "VERIF:C01:accepted only if oracle-valid signatures over exactly this digest carry threshold weight");
        kani::cover!(true, "VERIF:reach:signatures accepted");
    } else {
        kani::cover!(true, "VERIF:reach:signatures rejected");
    }
}
// HARNESS props=C01 tier=quick profile=gw_sig shape="N=1 proof entries; arbitrary oracle"
#[kani::proof]
fn c01_sigs_sound_n1() {
    c01_sigs_sound(1)
}
// HARNESS props=C01 tier=quick profile=gw_sig shape="N=2"
#[kani::proof]
fn c01_sigs_sound_n2() {
    c01_sigs_sound(2)
}
// HARNESS props=C01 tier=quick profile=gw_sig shape="N=3"
#[kani::proof]
fn c01_sigs_sound_n3() {
    c01_sigs_sound(3)
}

/// completeness (strict): an honest proof in which an arbitrary subset (mask) signed validly and
/// carries enough weight is accepted without any trap.
fn c01_sigs_complete(n: usize) {
    let env = Env::default();
    let digest = any::b32(2);
    let mut ps: Vec<ProofSigner> = Vec::new(&env);
    let mut total_all: u128 = 0;
    let mut total_mask: u128 = 0;
    let mut prev = [0u8; 32];
    let mut i = 0;
    while i < n {
        let ws = any_ws();
        kani::assume(prev < ws.signer.0); // installed sets have strictly increasing keys (C03)
        prev = ws.signer.0;
        let mask: bool = kani::any();
        let sig = any::b64(1);
        let t = total_all.checked_add(ws.weight);
        kani::assume(t.is_some()); // installed sets have an overflow-free total (C03)
        total_all = t.unwrap();
        if mask {
            oracle_preset(&ws.signer.0, &digest.0, &sig.0, true);
            total_mask += ws.weight;
        }
        ps.push_back(ProofSigner { signer: ws, signature: if mask { ProofSignature::Signed(sig) } else { ProofSignature::Unsigned } });
        i += 1;
    }
    let threshold: u128 = kani::any();
    kani::assume(threshold != 0 && total_mask >= threshold); // installed sets have a non-zero threshold (C03)
    let proof = Proof { signers: ps, threshold, nonce: any::b32(1) };
    let accepted = validate_signatures(&env, Hash(digest.clone()), proof);
    kani::assert(accepted, "VERIF:C01:every honest proof whose signing subset carries threshold weight is accepted");
    kani::cover!(true, "VERIF:reach:honest proof accepted");
}
// HARNESS props=C01 tier=quick profile=gw_sig mode=strict shape="N=1, every subset mask"
#[kani::proof]
fn c01_sigs_complete_n1() {
    c01_sigs_complete(1)
}
// HARNESS props=C01 tier=quick profile=gw_sig mode=strict shape="N=2, every subset mask"
#[kani::proof]
fn c01_sigs_complete_n2() {
    c01_sigs_complete(2)
}
// HARNESS props=C01 tier=quick profile=gw_sig mode=strict shape="N=3, every subset mask"
#[kani::proof]
fn c01_sigs_complete_n3() {
    c01_sigs_complete(3)
}

// HARNESS props=C01 tier=thorough profile=gw_sig4 shape="N=4 proof entries; arbitrary oracle"
#[kani::proof]
fn c01_sigs_sound_n4() {
    c01_sigs_sound(4)
}
// HARNESS props=C01 tier=thorough profile=gw_sig4 mode=strict shape="N=4, every subset mask"
#[kani::proof]
fn c01_sigs_complete_n4() {
    c01_sigs_complete(4)
}
