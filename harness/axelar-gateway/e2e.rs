// CHILD-OF: src/contract.rs
// ROBUST: calls only the public entry point and seeds storage with the contract's storage-key type; names no private function
// ENCODES: AxelarGateway::validate_proof (entry) -> auth::validate_proof -> WeightedSigners::hash, epoch lookups, message_hash_to_sign, validate_signatures (all real, nothing stubbed)
// C01 / C08 end to end for small shapes: the composition O1∘O2∘O3 that DESIGN.md otherwise argues on paper is decided here in one query.
use super::*;
use crate::types::*;
use soroban_sdk::crypto::{ideal_hash, oracle_verified};
use soroban_sdk::model::{self, any};
use soroban_sdk::xdr::ToXdr;
use soroban_sdk::{Address, Bytes, BytesN, Env, Vec};

fn gw() -> Address {
    Address(1)
}
fn c01_e2e(n: usize) -> u8 {
    let env = Env::default();
    // installed set
    let mut isv: Vec<WeightedSigner> = Vec::new(&env);
    let mut i = 0;
    while i < n {
        isv.push_back(WeightedSigner { signer: any::b32(2), weight: kani::any() });
        i += 1;
    }
    let inst = WeightedSigners { signers: isv, threshold: kani::any(), nonce: any::b32(1) };
    let e: u64 = kani::any();
    let s_ep: u64 = kani::any();
    kani::assume(1 <= s_ep && s_ep <= e);
    let r: u64 = kani::any();
    let domain = any::b32(1);
    let data_hash = any::b32(1);
    // arbitrary proof of the same length
    let mut ps: Vec<ProofSigner> = Vec::new(&env);
    i = 0;
    while i < n {
        let signed: bool = kani::any();
        ps.push_back(ProofSigner { signer: WeightedSigner { signer: any::b32(2), weight: kani::any() }, signature: if signed { ProofSignature::Signed(any::b64(1)) } else { ProofSignature::Unsigned } });
        i += 1;
    }
    let proof = Proof { signers: ps, threshold: kani::any(), nonce: any::b32(1) };
    // specification digests first
    let sh = ideal_hash(&inst.clone().to_xdr(&env).0);
    let mut m: Bytes = domain.clone().into();
    m.extend_from_array(&sh);
    m.extend_from_array(&data_hash.to_array());
    let digest = ideal_hash(&m.0);
    model::with_contract(&gw(), || {
        env.storage().instance().set(&DataKey::Epoch, &e);
        env.storage().instance().set(&DataKey::PreviousSignerRetention, &r);
        env.storage().instance().set(&DataKey::DomainSeparator, &domain);
        env.storage().instance().set(&DataKey::MinimumRotationDelay, &kani::any::<u64>());
        env.storage().persistent().set(&DataKey::EpochBySignersHash(BytesN::from_array(&env, &sh)), &s_ep);
    });
    let res = model::with_contract(&gw(), || <AxelarGateway as AxelarGatewayInterface>::validate_proof(&env, data_hash.clone(), proof.clone()));
    match res {
        Ok(latest) => {
            // the proof names the installed set, entry by entry
            let mut names = proof.threshold == inst.threshold && proof.nonce == inst.nonce;
            let mut total: u128 = 0;
            let mut sat = false;
            let mut j = 0;
            while j < n {
                let p = proof.signers.at(j);
                let q = inst.signers.at(j);
                if p.signer.signer != q.signer || p.signer.weight != q.weight {
                    names = false;
                }
                if let ProofSignature::Signed(sig) = &p.signature {
                    if oracle_verified(&p.signer.signer.0, &digest, &sig.0) {
                        match total.checked_add(p.signer.weight) {
                            Some(t) => total = t,
                            None => sat = true,
                        }
                    }
                }
                j += 1;
            }
            kani::assert(names, "VERIF:C01:an accepted proof names exactly an installed signer set");
            kani::assert(e - s_ep <= r, "VERIF:C01,C08:the set is still retained");
            kani::assert(latest == (s_ep == e), "VERIF:C08:latest flag is true exactly for the newest set");
            kani::assert(sat || total >= proof.threshold, "VERIF:C01:valid signatures over the digest H(domain || H(set) || data hash), from members of that set, carry the set's threshold weight");
            1
        }
        Err(_) => 0,
    }
}
// HARNESS props=C01,C08 tier=quick profile=gw_e2e1 shape="end to end, N=1: installed set, arbitrary proof, arbitrary oracle; nothing stubbed"
#[kani::proof]
fn c01_end_to_end_n1() {
    let o = c01_e2e(1);
    kani::cover!(o == 1, "VERIF:reach:proof accepted end to end");
    kani::cover!(o == 0, "VERIF:reach:proof refused end to end");
}
// HARNESS props=C01,C08 tier=quick profile=gw_e2e2 shape="end to end, N=2"
#[kani::proof]
fn c01_end_to_end_n2() {
    let o = c01_e2e(2);
    kani::cover!(o == 1, "VERIF:reach:proof accepted end to end");
    kani::cover!(o == 0, "VERIF:reach:proof refused end to end");
}
// HARNESS props=C01,C08 tier=quick profile=gw_e2e3 shape="end to end, N=3"
#[kani::proof]
fn c01_end_to_end_n3() {
    let o = c01_e2e(3);
    kani::cover!(o == 1, "VERIF:reach:proof accepted end to end");
    kani::cover!(o == 0, "VERIF:reach:proof refused end to end");
}

/// shared: one installed signer (set of N=1) at the latest epoch or older, an arbitrary one-entry proof;
/// returns the weight of oracle-valid signatures over `digest_of(data_hash)` and whether the proof names the set
struct World {
    env: Env,
    inst: WeightedSigners,
    proof: Proof,
    sh: [u8; 32],
    domain: BytesN<32>,
    e: u64,
    s_ep: u64,
    r: u64,
}
fn world1() -> World {
    let env = Env::default();
    any::auths();
    let inst = WeightedSigners { signers: Vec::from_array(&env, [WeightedSigner { signer: any::b32(2), weight: kani::any() }]), threshold: kani::any(), nonce: any::b32(1) };
    let signed: bool = kani::any();
    let proof = Proof {
        signers: Vec::from_array(&env, [ProofSigner { signer: WeightedSigner { signer: any::b32(2), weight: kani::any() }, signature: if signed { ProofSignature::Signed(any::b64(1)) } else { ProofSignature::Unsigned } }]),
        threshold: kani::any(),
        nonce: any::b32(1),
    };
    let e: u64 = kani::any();
    let s_ep: u64 = kani::any();
    kani::assume(1 <= s_ep && s_ep <= e);
    let r: u64 = kani::any();
    let domain = any::b32(1);
    let sh = ideal_hash(&inst.clone().to_xdr(&env).0);
    World { env, inst, proof, sh, domain, e, s_ep, r }
}
impl World {
    fn seed(&self, delay: u64, last: u64, operator: &Address) {
        let env = &self.env;
        model::with_contract(&gw(), || {
            env.storage().instance().set(&DataKey::Epoch, &self.e);
            env.storage().instance().set(&DataKey::PreviousSignerRetention, &self.r);
            env.storage().instance().set(&DataKey::DomainSeparator, &self.domain);
            env.storage().instance().set(&DataKey::MinimumRotationDelay, &delay);
            env.storage().instance().set(&DataKey::LastRotationTimestamp, &last);
            env.storage().persistent().set(&DataKey::EpochBySignersHash(BytesN::from_array(env, &self.sh)), &self.s_ep);
            env.storage().persistent().set(&DataKey::SignersHashByEpoch(self.s_ep), &BytesN::from_array(env, &self.sh));
            axelar_soroban_std::interfaces::set_operator(env, operator);
        });
    }
    fn digest(&self, data_hash: &[u8; 32]) -> [u8; 32] {
        let mut m: Bytes = self.domain.clone().into();
        m.extend_from_array(&self.sh);
        m.extend_from_array(data_hash);
        ideal_hash(&m.0)
    }
    /// the accepted proof names the installed set and its valid signatures over `digest` reach the threshold
    fn authorised_by(&self, digest: &[u8; 32]) -> bool {
        let p = self.proof.signers.at(0);
        let q = self.inst.signers.at(0);
        let names = self.proof.threshold == self.inst.threshold && self.proof.nonce == self.inst.nonce && p.signer.signer == q.signer && p.signer.weight == q.weight;
        let w = match &p.signature {
            ProofSignature::Signed(sig) if oracle_verified(&p.signer.signer.0, digest, &sig.0) => p.signer.weight,
            _ => 0,
        };
        names && w >= self.proof.threshold && self.e - self.s_ep <= self.r
    }
}

// PROBE (not registered: CBMC exceeds the 14 GB cap after ~20 min; kept for a larger machine) props=C01,C02,C08 profile=gw_e2ea shape="approve_messages end to end: batch M=1, signer set N=1, nothing stubbed; observed through is_message_approved"
#[kani::proof]
fn c01_approve_end_to_end() {
    let w = world1();
    let env = w.env.clone();
    let msg = Message { source_chain: any::string(2), message_id: any::string(2), source_address: any::string(2), contract_address: any::address(3), payload_hash: any::b32(1) };
    let msgs: Vec<Message> = Vec::from_array(&env, [msg.clone()]);
    let dh = ideal_hash(&(CommandType::ApproveMessages, msgs.clone()).to_xdr(&env).0);
    let digest = w.digest(&dh);
    w.seed(kani::any(), kani::any(), &Address(2));
    let res = model::with_contract(&gw(), || <AxelarGateway as AxelarGatewayInterface>::approve_messages(env.clone(), msgs.clone(), w.proof.clone()));
    if res.is_ok() {
        kani::assert(w.authorised_by(&digest), "VERIF:C01,C08:a batch is approved only on valid threshold-weight signatures, from a retained installed set, over the digest binding this domain, that set, the approve command and exactly this batch");
        let appr = model::with_contract(&gw(), || {
            <AxelarGateway as AxelarGatewayMessagingInterface>::is_message_approved(env.clone(), msg.source_chain.clone(), msg.message_id.clone(), msg.source_address.clone(), msg.contract_address.clone(), msg.payload_hash.clone())
        });
        kani::assert(appr, "VERIF:C02:after a successful approval the (fresh) message is reported approved");
        kani::cover!(true, "VERIF:reach:batch approved end to end");
    } else {
        kani::cover!(true, "VERIF:reach:batch refused end to end");
    }
}

// PROBE (not registered: CBMC exceeds the 14 GB cap; kept for a larger machine) props=C01,C03,C08,C09,C06 profile=gw_e2er shape="rotate_signers end to end: candidate N=1, authorising set N=1, bypass symbolic, nothing stubbed; observed through epoch() and the lookups"
#[kani::proof]
fn c03_rotate_end_to_end() {
    let w = world1();
    let env = w.env.clone();
    let cand = WeightedSigners { signers: Vec::from_array(&env, [WeightedSigner { signer: any::b32(2), weight: kani::any() }]), threshold: kani::any(), nonce: any::b32(1) };
    let ch = ideal_hash(&cand.clone().to_xdr(&env).0);
    let dh = ideal_hash(&(CommandType::RotateSigners, cand.clone()).to_xdr(&env).0);
    let digest = w.digest(&dh);
    let operator = any::address(3);
    let (delay, last, now): (u64, u64, u64) = (kani::any(), kani::any(), kani::any());
    model::set_ledger(now, kani::any());
    w.seed(delay, last, &operator);
    let bypass: bool = kani::any();
    let res = model::with_contract(&gw(), || <AxelarGateway as AxelarGatewayInterface>::rotate_signers(env.clone(), cand.clone(), w.proof.clone(), bypass));
    if res.is_ok() {
        kani::assert(w.authorised_by(&digest), "VERIF:C01,C03,C08:a rotation is authorised only by valid threshold-weight signatures, from a retained installed set, over the digest binding the rotate command and exactly the candidate set");
        kani::assert(bypass || w.s_ep == w.e, "VERIF:C08,C03:without bypass only the newest set can authorise a rotation");
        kani::assert(!bypass || model::auth_of(&operator), "VERIF:C06,C09,C03:bypassing the rotation delay needs the current operator's authorisation");
        kani::assert(bypass || (now >= last && now - last >= delay), "VERIF:C09:a non-bypass rotation succeeds only after the minimum delay");
        let c = cand.signers.at(0);
        kani::assert(c.weight != 0 && c.signer.0 != [0u8; 32] && cand.threshold != 0 && c.weight >= cand.threshold, "VERIF:C03:only a well-formed candidate is installed");
        let (ep, by_hash, by_epoch) = model::with_contract(&gw(), || {
            (
                <AxelarGateway as AxelarGatewayInterface>::epoch(&env),
                <AxelarGateway as AxelarGatewayInterface>::epoch_by_signers_hash(&env, BytesN(ch)),
                <AxelarGateway as AxelarGatewayInterface>::signers_hash_by_epoch(&env, w.e.wrapping_add(1)),
            )
        });
        kani::assert(w.e < u64::MAX && ep == w.e + 1 && by_hash == Ok(w.e + 1) && by_epoch == Ok(BytesN(ch)), "VERIF:C03:a successful rotation advances the epoch by one and both lookups report the new set there");
        kani::assert(ch != w.sh, "VERIF:C03:the authorising (already installed) set cannot be installed again");
        kani::cover!(bypass, "VERIF:reach:bypass rotation end to end");
        kani::cover!(!bypass, "VERIF:reach:ordinary rotation end to end");
    } else {
        kani::cover!(true, "VERIF:reach:rotation refused end to end");
    }
}

/// completeness end to end (strict): an honestly built proof in which an arbitrary subset (mask) of the installed,
/// retained set signed validly with enough combined weight is accepted by the public entry point, without any trap.
fn c01_e2e_complete(n: usize) {
    let env = Env::default();
    let e: u64 = kani::any();
    let s_ep: u64 = kani::any();
    let r: u64 = kani::any();
    kani::assume(1 <= s_ep && s_ep <= e && e - s_ep <= r);
    let domain = any::b32(1);
    let data_hash = any::b32(1);
    let mut isv: Vec<WeightedSigner> = Vec::new(&env);
    let mut total_all: u128 = 0;
    let mut prev = [0u8; 32];
    let mut i = 0;
    while i < n {
        let ws = WeightedSigner { signer: any::b32(2), weight: kani::any() };
        kani::assume(prev < ws.signer.0 && ws.weight != 0);
        prev = ws.signer.0;
        let t = total_all.checked_add(ws.weight);
        kani::assume(t.is_some());
        total_all = t.unwrap();
        isv.push_back(ws);
        i += 1;
    }
    let inst = WeightedSigners { signers: isv, threshold: kani::any(), nonce: any::b32(1) };
    let sh = ideal_hash(&inst.clone().to_xdr(&env).0);
    let mut m: Bytes = domain.clone().into();
    m.extend_from_array(&sh);
    m.extend_from_array(&data_hash.to_array());
    let digest = ideal_hash(&m.0);
    let mut ps: Vec<ProofSigner> = Vec::new(&env);
    let mut total_mask: u128 = 0;
    i = 0;
    while i < n {
        let mask: bool = kani::any();
        let sig = any::b64(1);
        let ws = inst.signers.at(i).clone();
        if mask {
            soroban_sdk::crypto::oracle_preset(&ws.signer.0, &digest, &sig.0, true);
            total_mask += ws.weight;
        }
        ps.push_back(ProofSigner { signer: ws, signature: if mask { ProofSignature::Signed(sig) } else { ProofSignature::Unsigned } });
        i += 1;
    }
    kani::assume(inst.threshold != 0 && total_mask >= inst.threshold);
    let proof = Proof { signers: ps, threshold: inst.threshold, nonce: inst.nonce.clone() };
    model::with_contract(&gw(), || {
        env.storage().instance().set(&DataKey::Epoch, &e);
        env.storage().instance().set(&DataKey::PreviousSignerRetention, &r);
        env.storage().instance().set(&DataKey::DomainSeparator, &domain);
        env.storage().instance().set(&DataKey::MinimumRotationDelay, &kani::any::<u64>());
        env.storage().persistent().set(&DataKey::EpochBySignersHash(BytesN::from_array(&env, &sh)), &s_ep);
    });
    let res = model::with_contract(&gw(), || <AxelarGateway as AxelarGatewayInterface>::validate_proof(&env, data_hash.clone(), proof.clone()));
    kani::assert(res == Ok(s_ep == e), "VERIF:C01,C08:every honestly built proof in which any subset of a retained set's signers with sufficient combined weight has signed is accepted");
    kani::cover!(true, "VERIF:reach:honest proof accepted end to end");
}
// HARNESS props=C01,C08 tier=thorough profile=gw_e2e4 shape="end to end, N=4"
#[kani::proof]
fn c01_end_to_end_n4() {
    let o = c01_e2e(4);
    kani::cover!(o == 1, "VERIF:reach:proof accepted end to end");
    kani::cover!(o == 0, "VERIF:reach:proof refused end to end");
}
// HARNESS props=C01,C08 tier=thorough profile=gw_e2e5 shape="end to end, N=5"
#[kani::proof]
fn c01_end_to_end_n5() {
    let o = c01_e2e(5);
    kani::cover!(o == 1, "VERIF:reach:proof accepted end to end");
    kani::cover!(o == 0, "VERIF:reach:proof refused end to end");
}
// HARNESS props=C01,C08 tier=quick profile=gw_e2e3 mode=strict shape="end to end completeness, N=3, every signing subset mask"
#[kani::proof]
fn c01_end_to_end_complete_n3() {
    c01_e2e_complete(3)
}
// HARNESS props=C01,C08 tier=quick profile=gw_e2e2 mode=strict shape="end to end completeness, N=2, every signing subset mask"
#[kani::proof]
fn c01_end_to_end_complete_n2() {
    c01_e2e_complete(2)
}
