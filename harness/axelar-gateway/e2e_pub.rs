// CHILD-OF: src/contract.rs
// ROBUST: names no storage key/value type and no private function of the gateway; the signer set is installed by the constructor and the proof is checked through the public entry point
// ENCODES: AxelarGateway::{__constructor, validate_proof} -> auth::{initialize_auth, rotate_signers, validate_signers, validate_proof, message_hash_to_sign, validate_signatures}, WeightedSigners::hash, Proof::weighted_signers (all real, nothing stubbed)
// C01 end to end on a freshly constructed gateway: representation-independent complement of e2e.rs (which seeds an arbitrary registry through the storage keys).
use super::*;
use crate::types::*;
use soroban_sdk::crypto::{ideal_hash, oracle_verified};
use soroban_sdk::model::{self, any};
use soroban_sdk::xdr::ToXdr;
use soroban_sdk::{Address, Bytes, BytesN, Env, Vec};

fn gw() -> Address {
    Address(1)
}
fn c01_pub(n: usize) -> u8 {
    let env = Env::default();
    let mut isv: Vec<WeightedSigner> = Vec::new(&env);
    let mut i = 0;
    while i < n {
        isv.push_back(WeightedSigner { signer: any::b32(2), weight: kani::any() });
        i += 1;
    }
    let inst = WeightedSigners { signers: isv, threshold: kani::any(), nonce: any::b32(1) };
    let domain = any::b32(1);
    let data_hash = any::b32(1);
    let mut ps: Vec<ProofSigner> = Vec::new(&env);
    i = 0;
    while i < n {
        let signed: bool = kani::any();
        ps.push_back(ProofSigner { signer: WeightedSigner { signer: any::b32(2), weight: kani::any() }, signature: if signed { ProofSignature::Signed(any::b64(1)) } else { ProofSignature::Unsigned } });
        i += 1;
    }
    let proof = Proof { signers: ps, threshold: kani::any(), nonce: any::b32(1) };
    // specification digest first
    let sh = ideal_hash(&inst.clone().to_xdr(&env).0);
    let mut m: Bytes = domain.clone().into();
    m.extend_from_array(&sh);
    m.extend_from_array(&data_hash.to_array());
    let digest = ideal_hash(&m.0);
    model::set_ledger(kani::any(), kani::any());
    let c = model::with_contract(&gw(), || AxelarGateway::__constructor(env.clone(), any::address(3), any::address(3), domain.clone(), kani::any(), kani::any(), Vec::from_array(&env, [inst.clone()])));
    kani::assume(c.is_ok());
    let res = model::with_contract(&gw(), || <AxelarGateway as AxelarGatewayInterface>::validate_proof(&env, data_hash.clone(), proof.clone()));
    match res {
        Ok(latest) => {
            let mut names = proof.threshold == inst.threshold && proof.nonce == inst.nonce;
            let mut total: u128 = 0;
            let mut sat = false;
            let mut j = 0;
            while j < n {
                let p = proof.signers.at(j);
                let q = inst.signers.at(j);
                if p.signer.signer != q.signer || p.signer.weight != q.weight {
                    names = false;
                }
                if let ProofSignature::Signed(sig) = &p.signature {
                    if oracle_verified(&p.signer.signer.0, &digest, &sig.0) {
                        match total.checked_add(p.signer.weight) {
                            Some(t) => total = t,
                            None => sat = true,
                        }
                    }
                }
                j += 1;
            }
            kani::assert(names, "VERIF:C01:an accepted proof names exactly an installed signer set");
            kani::assert(latest, "VERIF:C08:the only installed set is the latest");
            kani::assert(sat || total >= proof.threshold, "VERIF:C01:valid signatures over the digest H(domain || H(set) || data hash), from members of that set, carry the set's threshold weight");
            1
        }
        Err(_) => 0,
    }
}
// HARNESS props=C01,C08 tier=quick profile=gw_pub1 shape="constructed gateway (one initial set, N=1, any configuration), arbitrary proof of 1 entry, arbitrary oracle; nothing stubbed, no storage key named"
#[kani::proof]
fn c01_public_n1() {
    let o = c01_pub(1);
    kani::cover!(o == 1, "VERIF:reach:proof accepted by a constructed gateway");
    kani::cover!(o == 0, "VERIF:reach:proof refused by a constructed gateway");
}
// HARNESS props=C01,C08 tier=thorough profile=gw_pub2 shape="constructed gateway, N=2"
#[kani::proof]
fn c01_public_n2() {
    let o = c01_pub(2);
    kani::cover!(o == 1, "VERIF:reach:proof accepted by a constructed gateway");
    kani::cover!(o == 0, "VERIF:reach:proof refused by a constructed gateway");
}
