// CHILD-OF: src/contract.rs
// ENCODES: AxelarOperators::{__constructor, is_operator, add_operator, remove_operator, execute}, event::{add_operator, remove_operator}
// STUBS: soroban_sdk::model::invoke_raw -> probe target (records contract, function, arguments; returns an arbitrary value or fails)
// C17 (membership, faithful forwarding), C06 (owner-only set changes), C07 (operator authorises execute).
use super::*;
use soroban_sdk::model::{self, any};
use soroban_sdk::{Address, Env, IntoVal, Symbol, Val, Vec};

pub fn ops() -> Address {
    Address(5)
}
fn k(a: &Address) -> Val {
    DataKey::Operators(a.clone()).into_val(&Env)
}
// membership is OBSERVED through the public query; only the pre-state is SEEDED through the storage key, and
// `setup()` checks that what it seeded is what the contract reads (otherwise: inconclusive, not a violation)
pub fn member(a: &Address) -> bool {
    model::with_contract(&ops(), || AxelarOperators::is_operator(Env, a.clone()))
}
pub fn setup() -> (Env, Address, Address, bool, Address, bool) {
    let env = Env::default();
    any::auths();
    let owner = any::address(4);
    model::with_contract(&ops(), || interfaces::set_owner(&env, &owner));
    let target = any::address(4);
    let t_was: bool = kani::any();
    let witness = any::address(4);
    let w_was: bool = kani::any();
    model::storage_set_if(t_was, &ops(), 0, &k(&target), &model::val_of(&true));
    model::storage_set_if(w_was && witness != target, &ops(), 0, &k(&witness), &model::val_of(&true));
    kani::assert(member(&target) == t_was && (witness == target || member(&witness) == w_was), "MODEL:seeded pre-state is not what the contract reads (storage layout differs from the one this harness seeds)");
    (env, owner, target, t_was, witness, w_was)
}

// HARNESS props=C17,C06 tier=quick profile=ops shape="add/remove of an arbitrary address, arbitrary prior membership, witness member; 4 principals"
#[kani::proof]
fn c17_membership_step() {
    let (env, owner, target, t_was, witness, w_was) = setup();
    let add: bool = kani::any();
    let r = model::with_contract(&ops(), || {
        if add {
            AxelarOperators::add_operator(env.clone(), target.clone())
        } else {
            AxelarOperators::remove_operator(env.clone(), target.clone())
        }
    });
    match r {
        Ok(()) => {
            kani::assert(model::auth_of(&owner), "VERIF:C06,C17:the operator set changes only with the current owner's authorisation");
            kani::assert(t_was != add, "VERIF:C17:only an absent address can be added and only a present one removed");
            kani::assert(member(&target) == add, "VERIF:C17:the named address joins or leaves the operator set");
            kani::cover!(add, "VERIF:reach:operator added");
            kani::cover!(!add, "VERIF:reach:operator removed");
        }
        Err(_) => {
            kani::assert(t_was == add, "VERIF:C17:an authorised change of membership succeeds");
            kani::cover!(true, "VERIF:reach:membership change refused");
        }
    }
    if witness != target {
        kani::assert(member(&witness) == w_was, "VERIF:C17:membership of other addresses is untouched");
    }
    let q = model::with_contract(&ops(), || AxelarOperators::is_operator(env.clone(), witness.clone()));
    kani::assert(q == member(&witness), "VERIF:C17:is_operator agrees with the set");
}

// ---- probe target
pub static mut P_CALLS: u32 = 0;
pub static mut P_ADDR: u32 = 0;
pub static mut P_FN_OK: bool = false;
pub static mut P_ARGS_OK: bool = false;
pub static mut P_FAIL: bool = false;
pub static mut P_RET: Val = Val::VOID;
pub static mut P_EXPECT_FN: Option<Symbol> = None;
pub static mut P_EXPECT_ARGS: Option<Vec<Val>> = None;
pub fn probe(a: &Address, f: &Symbol, args: Vec<Val>) -> Val {
    unsafe {
        P_CALLS += 1;
        P_ADDR = a.0;
        P_FN_OK = match &P_EXPECT_FN {
            Some(x) => *x == *f,
            None => false,
        };
        P_ARGS_OK = match &P_EXPECT_ARGS {
            Some(x) => *x == args,
            None => false,
        };
        if P_FAIL {
            model::spec_trap();
        }
        P_RET
    }
}
fn c17_execute(nargs: usize) {
    let (env, _owner, operator, is_member, _w, _ww) = setup();
    let contract = any::address(7);
    let func = if kani::any() { Symbol::new(&env, "collect_fees") } else { Symbol::new(&env, "refund") };
    let mut args: Vec<Val> = Vec::new(&env);
    let mut i = 0;
    while i < nargs {
        let x: u64 = kani::any();
        let as_addr: bool = kani::any();
        args.push_back(if as_addr { model::val_of(&Address(x as u32)) } else { model::val_of(&x) });
        i += 1;
    }
    unsafe {
        P_CALLS = 0;
        P_FAIL = kani::any();
        P_RET = model::val_of(&kani::any::<u64>());
        P_EXPECT_FN = Some(func.clone());
        P_EXPECT_ARGS = Some(args.clone());
    }
    let r = model::with_contract(&ops(), || AxelarOperators::execute(env.clone(), operator.clone(), contract.clone(), func.clone(), args.clone()));
    match r {
        Ok(v) => {
            kani::assert(model::auth_of(&operator), "VERIF:C07,C17:a call is forwarded only with the operator's own authorisation");
            kani::assert(is_member, "VERIF:C17:only a current member of the operator set can execute");
            kani::assert(unsafe { P_CALLS == 1 && P_ADDR == contract.0 && P_FN_OK && P_ARGS_OK }, "VERIF:C17:exactly the named contract, function and arguments are called, once");
            kani::assert(unsafe { !P_FAIL }, "VERIF:C17:a failing target makes the whole call fail");
            kani::assert(v == unsafe { P_RET }, "VERIF:C17:the target's return value is handed back unchanged");
            kani::cover!(true, "VERIF:reach:call forwarded");
        }
        Err(_) => {
            kani::assert(!is_member, "VERIF:C17:a member's authorised call is forwarded");
            kani::assert(unsafe { P_CALLS == 0 }, "VERIF:C17:a refused caller reaches no target");
            kani::cover!(true, "VERIF:reach:non-member refused");
        }
    }
}
// HARNESS props=C17,C07 tier=quick profile=ops shape="execute with 0 arguments"
#[kani::proof]
#[kani::stub(soroban_sdk::model::invoke_raw, probe)]
fn c17_execute_a0() {
    c17_execute(0)
}
// HARNESS props=C17,C07 tier=quick profile=ops shape="execute with 2 arguments (u64 or address atoms)"
#[kani::proof]
#[kani::stub(soroban_sdk::model::invoke_raw, probe)]
fn c17_execute_a2() {
    c17_execute(2)
}

// HARNESS props=C06,C17 tier=quick profile=ops mode=strict shape="constructor, then owner and membership queries; nothing may trap"
#[kani::proof]
fn c17_constructor() {
    let env = Env::default();
    let owner = any::address(4);
    model::with_contract(&ops(), || AxelarOperators::__constructor(env.clone(), owner.clone()));
    let o = model::with_contract(&ops(), || AxelarOperators::owner(&env));
    let probe = any::address(4);
    kani::assert(o == owner, "VERIF:C06:construction installs exactly the given owner");
    let q = model::with_contract(&ops(), || AxelarOperators::is_operator(env.clone(), probe.clone()));
    kani::assert(!q && !member(&probe), "VERIF:C17:a new operators contract has no operators");
    kani::cover!(true, "VERIF:reach:constructed");
}
