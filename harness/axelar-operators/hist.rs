// CHILD-OF: src/contract.rs
// ROBUST: names no storage key/value type of the contract; state is built and observed through public entry points only
// ENCODES: AxelarOperators::{__constructor, add_operator, remove_operator, transfer_ownership, is_operator, execute} over a history of three state-changing transactions followed by a query and a forwarded call
// STUBS: soroban_sdk::model::invoke_raw -> probe target (records the call; returns an arbitrary value)
// C17 / C06: the operator set is exactly what the owners of the time made it, through add/remove only.
use super::*;
use soroban_sdk::model::{self, any};
use soroban_sdk::{Address, Env, Symbol, Val, Vec};

fn ops() -> Address {
    Address(5)
}
const NP: usize = 4; // principals 1..=4
static mut H_CALLS: u32 = 0;
static mut H_OK: bool = false;
static mut H_EXPECT: Option<(Address, Symbol)> = None;
static mut H_RET: Val = Val::VOID;
fn probe(a: &Address, f: &Symbol, args: Vec<Val>) -> Val {
    unsafe {
        H_CALLS += 1;
        H_OK = match &H_EXPECT {
            Some((c, g)) => *c == *a && *g == *f && args.len() == 0,
            None => false,
        };
        H_RET
    }
}
struct Ghost {
    owner: Address,
    member: [bool; NP + 1],
}
/// one state-changing transaction, arbitrary kind and argument; the ghost follows the property's rules
fn step(env: &Env, g: &mut Ghost) {
    let kind: u8 = kani::any();
    kani::assume(kind < 3);
    let x = any::address(NP as u32);
    let e0 = model::events_len();
    if kind == 0 {
        let r = model::with_contract(&ops(), || AxelarOperators::add_operator(env.clone(), x.clone()));
        // reaching this point: the transaction was not rejected by the host
        match r {
            Ok(()) => {
                kani::assert(model::auth_of(&g.owner), "VERIF:C06,C17:the operator set changes only with the authorisation of the owner of the time");
                kani::assert(!g.member[x.0 as usize], "VERIF:C17:only an absent address can be added and only a present one removed");
                g.member[x.0 as usize] = true;
            }
            Err(_) => {
                kani::assert(g.member[x.0 as usize], "VERIF:C17:an authorised change of membership succeeds");
            }
        }
    } else if kind == 1 {
        let r = model::with_contract(&ops(), || AxelarOperators::remove_operator(env.clone(), x.clone()));
        match r {
            Ok(()) => {
                kani::assert(model::auth_of(&g.owner), "VERIF:C06,C17:the operator set changes only with the authorisation of the owner of the time");
                kani::assert(g.member[x.0 as usize], "VERIF:C17:only an absent address can be added and only a present one removed");
                g.member[x.0 as usize] = false;
            }
            Err(_) => {
                kani::assert(!g.member[x.0 as usize], "VERIF:C17:an authorised change of membership succeeds");
            }
        }
    } else {
        model::with_contract(&ops(), || AxelarOperators::transfer_ownership(env, x.clone()));
        kani::assert(model::auth_of(&g.owner), "VERIF:C06:ownership changes hands only with the current owner's authorisation");
        g.owner = x;
    }
    let _ = e0;
}
fn history(n: usize) {
    let env = Env::default();
    any::auths();
    let owner0 = any::address(NP as u32);
    model::with_contract(&ops(), || AxelarOperators::__constructor(env.clone(), owner0.clone()));
    let mut g = Ghost { owner: owner0, member: [false; NP + 1] };
    let mut i = 0;
    while i < n {
        step(&env, &mut g);
        i += 1;
    }
    // observe: every principal's membership is what the add/remove history says — nothing else changed it
    let w = any::address(NP as u32);
    let q = model::with_contract(&ops(), || AxelarOperators::is_operator(env.clone(), w.clone()));
    kani::assert(q == g.member[w.0 as usize], "VERIF:C17:the operator set is exactly the result of the owners' add and remove calls (ownership transfer and failed calls change nothing)");
    kani::assert(model::with_contract(&ops(), || AxelarOperators::owner(&env)) == g.owner, "VERIF:C06:the owner is exactly the last named successor");
    // and a forwarded call by w
    let contract = any::address(7);
    let func = Symbol::new(&env, "refund");
    unsafe {
        H_CALLS = 0;
        H_RET = model::val_of(&kani::any::<u64>());
        H_EXPECT = Some((contract.clone(), func.clone()));
    }
    let r = model::with_contract(&ops(), || AxelarOperators::execute(env.clone(), w.clone(), contract.clone(), func.clone(), Vec::new(&env)));
    match r {
        Ok(v) => {
            kani::assert(model::auth_of(&w), "VERIF:C07,C17:a call is forwarded only with the operator's own authorisation");
            kani::assert(g.member[w.0 as usize], "VERIF:C17:only a current member of the operator set can execute");
            kani::assert(unsafe { H_CALLS == 1 && H_OK } && v == unsafe { H_RET }, "VERIF:C17:exactly the named contract and function are called, once, and the result handed back");
            kani::cover!(true, "VERIF:reach:call forwarded after a history");
        }
        Err(_) => {
            kani::assert(!g.member[w.0 as usize], "VERIF:C17:a member's authorised call is forwarded");
            kani::assert(unsafe { H_CALLS == 0 }, "VERIF:C17:a refused caller reaches no target");
            kani::cover!(true, "VERIF:reach:non-member refused after a history");
        }
    }
}
// HARNESS props=C17,C06,C07 tier=quick profile=ops_hist shape="constructor, then ANY 2 transactions over {add_operator, remove_operator, transfer_ownership} with arbitrary arguments (4 principals, arbitrary authorisations), then is_operator and execute for an arbitrary principal"
#[kani::proof]
#[kani::stub(soroban_sdk::model::invoke_raw, probe)]
fn c17_history_2() {
    history(2)
}
// HARNESS props=C17,C06,C07 tier=thorough profile=ops_hist shape="constructor, then ANY 4 transactions over {add_operator, remove_operator, transfer_ownership}, then is_operator and execute"
#[kani::proof]
#[kani::stub(soroban_sdk::model::invoke_raw, probe)]
fn c17_history_4() {
    history(4)
}
// HARNESS props=C17,C06,C07 tier=thorough profile=ops_hist6 shape="constructor, then ANY 6 transactions over {add_operator, remove_operator, transfer_ownership}, then is_operator and execute"
#[kani::proof]
#[kani::stub(soroban_sdk::model::invoke_raw, probe)]
fn c17_history_6() {
    history(6)
}
