// CHILD-OF: src/contract.rs
// ENCODES: Upgrader::upgrade
// STUBS: axelar_soroban_std UpgradableClient::{version, upgrade} and soroban_sdk::model::invoke_raw (the `migrate` call) -> UpgradableSpec: a target whose version is an arbitrary string before and an arbitrary string after the code swap, and whose upgrade / migrate steps may each fail (their own rules are proven on the five production contracts by c15_upgrade / c15_migrate)
// C15 (Upgrader is all-or-nothing and ends at the requested, different version).
use super::*;
use soroban_sdk::model::{self, any};
use soroban_sdk::{Address, BytesN, Env, String, Symbol, Val, Vec};

pub fn upgrader() -> Address {
    Address(5)
}
pub static mut PHASE: u8 = 0; // 0 old code, 1 code swapped (window open), 2 migrated
pub static mut V_BEFORE: Option<String> = None;
pub static mut V_AFTER: Option<String> = None;
pub static mut UP_CALLS: u32 = 0;
pub static mut UP_OK: bool = false;
pub static mut UP_FAILS: bool = false;
pub static mut MG_CALLS: u32 = 0;
pub static mut MG_OK: bool = false;
pub static mut MG_FAILS: bool = false;
pub static mut VERSION_QUERIES: u32 = 0;
pub static mut TARGET: u32 = 0;
pub static mut EXPECT_HASH: [u8; 32] = [0; 32];
pub static mut EXPECT_DATA: Option<Vec<Val>> = None;
pub fn spec_version(_env: &Env, contract: &Address) -> String {
    unsafe {
        VERSION_QUERIES += 1;
        if contract.0 != TARGET {
            model::spec_trap();
        }
        let v = if PHASE == 0 { &V_BEFORE } else { &V_AFTER };
        match v {
            Some(s) => s.clone(),
            None => model::spec_trap(),
        }
    }
}
pub fn spec_upgrade(_env: &Env, contract: &Address, new_wasm_hash: &BytesN<32>) {
    unsafe {
        UP_CALLS += 1;
        UP_OK = contract.0 == TARGET && new_wasm_hash.0 == EXPECT_HASH && PHASE == 0;
        if UP_FAILS {
            model::spec_trap(); // e.g. the owner did not authorise, or the hash is unknown
        }
        PHASE = 1;
    }
}
pub fn spec_invoke(a: &Address, f: &Symbol, args: Vec<Val>) -> Val {
    unsafe {
        MG_CALLS += 1;
        MG_OK = a.0 == TARGET && *f == Symbol::short("migrate") && PHASE == 1
            && match &EXPECT_DATA {
                Some(d) => *d == args,
                None => false,
            };
        if MG_FAILS || PHASE != 1 {
            model::spec_trap(); // not authorised, ill-typed data, or no migration window
        }
        PHASE = 2;
        Val::VOID
    }
}
fn c15_upgrader(nargs: usize) -> u8 {
    let env = Env::default();
    any::auths();
    let target = any::address(4);
    let requested = any::string(2);
    let vb = any::string(2);
    let va = any::string(2);
    let hash = any::b32(2);
    let mut data: Vec<Val> = Vec::new(&env);
    let mut i = 0;
    while i < nargs {
        data.push_back(model::val_of(&kani::any::<u64>()));
        i += 1;
    }
    unsafe {
        PHASE = 0;
        V_BEFORE = Some(vb.clone());
        V_AFTER = Some(va.clone());
        UP_CALLS = 0;
        MG_CALLS = 0;
        UP_FAILS = kani::any();
        MG_FAILS = kani::any();
        TARGET = target.0;
        EXPECT_HASH = hash.0;
        EXPECT_DATA = Some(data.clone());
    }
    let r = model::with_contract(&upgrader(), || Upgrader::upgrade(env.clone(), target.clone(), requested.clone(), hash.clone(), data.clone()));
    match r {
        Ok(()) => {
            kani::assert(vb != requested, "VERIF:C15:the Upgrader refuses to 'upgrade' to the version already running");
            kani::assert(unsafe { UP_CALLS == 1 && UP_OK }, "VERIF:C15:the target's code is replaced exactly once, with the given hash, before migration");
            kani::assert(unsafe { MG_CALLS == 1 && MG_OK }, "VERIF:C15:the target's migrate runs exactly once, after the code swap, with the given data");
            kani::assert(unsafe { PHASE == 2 }, "VERIF:C15:a completed Upgrader run performed both steps");
            kani::assert(va == requested, "VERIF:C15:a completed Upgrader run ends at the requested version");
            1
        }
        Err(_) => {
            // Err => the host reverts every step already taken (all-or-nothing)
            kani::assert(vb == requested || va != requested, "VERIF:C15:an Upgrader run whose steps succeed and whose versions match completes");
            0
        }
    }
}
// HARNESS props=C15 tier=quick profile=upg shape="no migration data; version strings <=2 symbolic bytes; each step may fail"
#[kani::proof]
#[kani::stub(axelar_soroban_std::interfaces::upgradable::xc_UpgradableClient_version, spec_version)]
#[kani::stub(axelar_soroban_std::interfaces::upgradable::xc_UpgradableClient_upgrade, spec_upgrade)]
#[kani::stub(soroban_sdk::model::invoke_raw, spec_invoke)]
fn c15_upgrader_d0() {
    let o = c15_upgrader(0);
    kani::cover!(o == 1, "VERIF:reach:upgrader completed");
    kani::cover!(o == 0, "VERIF:reach:upgrader refused");
}
// HARNESS props=C15 tier=quick profile=upg shape="two migration arguments"
#[kani::proof]
#[kani::stub(axelar_soroban_std::interfaces::upgradable::xc_UpgradableClient_version, spec_version)]
#[kani::stub(axelar_soroban_std::interfaces::upgradable::xc_UpgradableClient_upgrade, spec_upgrade)]
#[kani::stub(soroban_sdk::model::invoke_raw, spec_invoke)]
fn c15_upgrader_d2() {
    let o = c15_upgrader(2);
    kani::cover!(o == 1, "VERIF:reach:upgrader completed");
    kani::cover!(o == 0, "VERIF:reach:upgrader refused");
}
