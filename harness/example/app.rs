// CHILD-OF: src/contract.rs
// ROBUST: names no storage key/value type of the example app; state is built by the constructor
// ENCODES: Example::{execute, send, gateway, gas_service, __constructor}, AxelarExecutableInterface::validate_message (default method), event::executed; a minimal app (MiniApp, below) using the helper as documented
// STUBS: axelar_gateway AxelarGatewayMessagingClient::{validate_message, call_contract} -> GatewaySpec (one symbolic approval record; proven against the real gateway by c02_validate_message_step / c13_call_contract_*); AxelarGasServiceClient::pay_gas -> recorder (GasServiceSpec, proven by c14_pay_gas)
// C16 (apps act only on approved messages, once), C07 (example send).
use super::*;
use soroban_sdk::crypto::ideal_hash;
use soroban_sdk::model::{self, any};
use soroban_sdk::{Address, Bytes, BytesN, Env, String, Symbol, Val};

pub fn app() -> Address {
    Address(4)
}
pub fn gateway_addr() -> Address {
    Address(1)
}
pub fn gas_addr() -> Address {
    Address(5)
}
// ---- GatewaySpec: a single approval record (what the approval was made for) and its status
pub static mut G_STATUS: u8 = 0; // 0 not approved, 1 approved, 2 executed
pub static mut G_FOR: Option<(Address, String, String, String, [u8; 32])> = None;
pub static mut G_CALLS: u32 = 0;
pub static mut G_LAST_TRUE: bool = false;
pub static mut G_ADDR_OK: bool = false;
pub fn spec_validate_message(env: &Env, contract: &Address, caller: &Address, source_chain: &String, message_id: &String, source_address: &String, payload_hash: &BytesN<32>) -> bool {
    unsafe {
        if *caller != env.current_contract_address() {
            caller.require_auth();
        }
        G_CALLS += 1;
        G_ADDR_OK = *contract == gateway_addr();
        let m = match &G_FOR {
            Some((c, ch, id, sa, ph)) => *c == *caller && *ch == *source_chain && *id == *message_id && *sa == *source_address && *ph == payload_hash.0,
            None => false,
        };
        if G_STATUS == 1 && m {
            G_STATUS = 2;
            G_LAST_TRUE = true;
            true
        } else {
            G_LAST_TRUE = false;
            false
        }
    }
}
// the read-only gateway queries are part of GatewaySpec too: an app that merely *asks* instead of consuming is judged, not left inconclusive
pub fn spec_is_message_approved(_env: &Env, contract: &Address, source_chain: &String, message_id: &String, source_address: &String, contract_address: &Address, payload_hash: &BytesN<32>) -> bool {
    unsafe {
        let m = match &G_FOR {
            Some((c, ch, id, sa, ph)) => *c == *contract_address && *ch == *source_chain && *id == *message_id && *sa == *source_address && *ph == payload_hash.0,
            None => false,
        };
        *contract == gateway_addr() && G_STATUS == 1 && m
    }
}
pub fn spec_is_message_executed(_env: &Env, contract: &Address, source_chain: &String, message_id: &String) -> bool {
    unsafe {
        match &G_FOR {
            Some((_, ch, id, _, _)) => *contract == gateway_addr() && G_STATUS == 2 && *ch == *source_chain && *id == *message_id,
            None => false,
        }
    }
}
pub struct Delivery {
    pub env: Env,
    pub chain: String,
    pub id: String,
    pub src: String,
    pub payload: Bytes,
    pub conforming: bool,
}
/// arbitrary delivery + arbitrary approval record (for the same or another app / chain / id / address / payload)
pub fn delivery() -> Delivery {
    delivery_with(any::bytes(3), any::bytes(3))
}
/// `payload` is delivered; the approval record was made for `other_payload` (possibly equal)
pub fn delivery_with(payload: Bytes, other_payload: Bytes) -> Delivery {
    let env = Env::default();
    any::auths();
    let chain = any::string(2);
    let id = any::string(2);
    let src = any::string(2);
    let ph = ideal_hash(&payload.0);
    // the approval record: same fields or deviating ones
    let a_contract = any::address(5);
    let a_chain = any::string(2);
    let a_id = any::string(2);
    let a_src = any::string(2);
    let a_ph = ideal_hash(&other_payload.0);
    let status: u8 = kani::any();
    kani::assume(status <= 2);
    unsafe {
        G_STATUS = status;
        G_FOR = Some((a_contract.clone(), a_chain.clone(), a_id.clone(), a_src.clone(), a_ph));
        G_CALLS = 0;
    }
    let conforming = status == 1 && a_contract == app() && a_chain == chain && a_id == id && a_src == src && a_ph == ph;
    // state is built by the constructor (no storage key is named)
    model::with_contract(&app(), || Example::__constructor(env.clone(), gateway_addr(), gas_addr()));
    Delivery { env, chain, id, src, payload, conforming }
}
fn check_effect(d: &Delivery) {
    // reaching this point means execute() completed
    kani::assert(d.conforming, "VERIF:C16:a delivery takes effect only if the gateway held an unexecuted approval for exactly this app, chain, id, source address and payload");
    kani::assert(unsafe { G_CALLS == 1 && G_LAST_TRUE && G_ADDR_OK && G_STATUS == 2 }, "VERIF:C16:the approval is consumed at the configured gateway, so the message cannot be delivered again");
    kani::assert(model::events_len() == 1 && model::event_contract(0) == app()
        && model::event_topics(0) == model::topics_of(&(Symbol::new(&d.env, "executed"), d.chain.clone(), d.id.clone(), d.src.clone()))
        && model::event_data(0) == model::val_of(&(d.payload.clone(),)), "VERIF:C16:the app's effect reports the delivered message");
}

// HARNESS props=C16 tier=quick profile=app shape="shipped example app; delivery and approval record independent, strings <=2, payload <=3 bytes"
#[kani::proof]
#[kani::stub(axelar_gateway::messaging_interface::xc_AxelarGatewayMessagingClient_validate_message, spec_validate_message)]
#[kani::stub(axelar_gateway::messaging_interface::xc_AxelarGatewayMessagingClient_is_message_approved, spec_is_message_approved)]
#[kani::stub(axelar_gateway::messaging_interface::xc_AxelarGatewayMessagingClient_is_message_executed, spec_is_message_executed)]
fn c16_example_execute() {
    let d = delivery();
    model::with_contract(&app(), || Example::execute(d.env.clone(), d.chain.clone(), d.id.clone(), d.src.clone(), d.payload.clone()));
    check_effect(&d);
    kani::cover!(true, "VERIF:reach:delivery executed");
}

// ---- a minimal app that uses the interface's helper as documented
pub struct MiniApp;
impl AxelarExecutableInterface for MiniApp {
    fn gateway(env: &Env) -> Address {
        <Example as AxelarExecutableInterface>::gateway(env)
    }
    fn execute(env: Env, source_chain: String, message_id: String, source_address: String, payload: Bytes) {
        if Self::validate_message(&env, &source_chain, &message_id, &source_address, &payload).is_err() {
            model::spec_trap();
        }
        event::executed(&env, source_chain, message_id, source_address, payload);
    }
}
// HARNESS props=C16 tier=quick profile=app shape="minimal app using AxelarExecutableInterface::validate_message"
#[kani::proof]
#[kani::stub(axelar_gateway::messaging_interface::xc_AxelarGatewayMessagingClient_validate_message, spec_validate_message)]
#[kani::stub(axelar_gateway::messaging_interface::xc_AxelarGatewayMessagingClient_is_message_approved, spec_is_message_approved)]
#[kani::stub(axelar_gateway::messaging_interface::xc_AxelarGatewayMessagingClient_is_message_executed, spec_is_message_executed)]
fn c16_miniapp_execute() {
    let d = delivery();
    model::with_contract(&app(), || MiniApp::execute(d.env.clone(), d.chain.clone(), d.id.clone(), d.src.clone(), d.payload.clone()));
    check_effect(&d);
    kani::cover!(true, "VERIF:reach:delivery executed");
}

// ---- example send: recorders
pub static mut PG_CALLS: u32 = 0;
pub static mut PG_OK: bool = false;
pub static mut CC_CALLS: u32 = 0;
pub static mut CC_OK: bool = false;
pub static mut CC_AFTER_PG: bool = false;
pub static mut EXPECT: Option<(String, String, Bytes, Address, Token)> = None;
pub fn rec_pay_gas(env: &Env, contract: &Address, sender: &Address, destination_chain: &String, destination_address: &String, payload: &Bytes, spender: &Address, token: &Token, metadata: &Bytes) {
    unsafe {
        spender.require_auth(); // GasServiceSpec (c14_pay_gas): the spender must authorise
        PG_CALLS += 1;
        PG_OK = match &EXPECT {
            Some((c, a, p, s, t)) => *contract == gas_addr() && *sender == app() && *destination_chain == *c && *destination_address == *a && *payload == *p && *spender == *s && *token == *t && metadata.is_empty(),
            None => false,
        };
    }
}
pub fn rec_call_contract(env: &Env, contract: &Address, caller: &Address, destination_chain: &String, destination_address: &String, payload: &Bytes) {
    unsafe {
        if *caller != env.current_contract_address() {
            caller.require_auth();
        }
        CC_CALLS += 1;
        CC_AFTER_PG = PG_CALLS == 1;
        CC_OK = match &EXPECT {
            Some((c, a, p, _, _)) => *contract == gateway_addr() && *caller == app() && *destination_chain == *c && *destination_address == *a && *payload == *p,
            None => false,
        };
    }
}
// HARNESS props=C07 tier=quick profile=app shape="example send"
#[kani::proof]
#[kani::stub(axelar_gateway::messaging_interface::xc_AxelarGatewayMessagingClient_call_contract, rec_call_contract)]
#[kani::stub(axelar_gas_service::interface::xc_AxelarGasServiceClient_pay_gas, rec_pay_gas)]
fn c07_example_send() {
    let env = Env::default();
    any::auths();
    model::with_contract(&app(), || Example::__constructor(env.clone(), gateway_addr(), gas_addr()));
    let caller = any::address(3);
    let chain = any::string(2);
    let daddr = any::string(2);
    let msg = any::bytes(3);
    let token = Token { address: Address(6), amount: kani::any() };
    unsafe {
        PG_CALLS = 0;
        CC_CALLS = 0;
        EXPECT = Some((chain.clone(), daddr.clone(), msg.clone(), caller.clone(), token.clone()));
    }
    model::with_contract(&app(), || Example::send(env.clone(), caller.clone(), chain.clone(), daddr.clone(), msg.clone(), token.clone()));
    kani::assert(model::auth_of(&caller), "VERIF:C07:the example sends a cross-chain call only with the caller's authorisation");
    kani::assert(unsafe { PG_CALLS == 1 && PG_OK }, "VERIF:C07:gas is paid once, by the caller, for exactly this message");
    kani::assert(unsafe { CC_CALLS == 1 && CC_OK }, "VERIF:C07:exactly this message is sent through the configured gateway as the app");
    kani::cover!(true, "VERIF:reach:message sent");
}

/// a long payload (1030 bytes) and an approval made for its first 1024 bytes: approved prefix, unapproved whole
fn long_payload_pair() -> (Bytes, Bytes) {
    let whole = any::bytes_exact(1030);
    let mut prefix = whole.clone();
    let mut i = 1024;
    while i < 1030 {
        prefix.0.d[i] = 0;
        i += 1;
    }
    prefix.0.len = 1024;
    (whole, prefix)
}
// HARNESS props=C16 tier=quick profile=app_long shape="abstract long payload delivered (EVERY length from 113 bytes to 2^32-1, opaque content); the approval record is for the same payload or for any other long byte string — in particular one of the length and content a cut of the payload would have"
#[kani::proof]
#[kani::stub(axelar_gateway::messaging_interface::xc_AxelarGatewayMessagingClient_validate_message, spec_validate_message)]
#[kani::stub(axelar_gateway::messaging_interface::xc_AxelarGatewayMessagingClient_is_message_approved, spec_is_message_approved)]
#[kani::stub(axelar_gateway::messaging_interface::xc_AxelarGatewayMessagingClient_is_message_executed, spec_is_message_executed)]
fn c16_example_execute_abstract_payload() {
    let whole = any::bytes_long();
    let other = any::bytes_long();
    let d = delivery_with(whole.clone(), other.clone());
    model::with_contract(&app(), || Example::execute(d.env.clone(), d.chain.clone(), d.id.clone(), d.src.clone(), d.payload.clone()));
    check_effect(&d);
    kani::assert(whole == other, "VERIF:C16:an approval of other bytes (a prefix, a cut, any other string) is not an approval of the payload");
    kani::cover!(true, "VERIF:reach:long delivery executed");
}
// HARNESS props=C16 tier=thorough profile=app_big shape="payload of 1030 symbolic bytes delivered; the approval record is for its 1024-byte prefix (or, by the symbolic status/fields, for nothing)"
#[kani::proof]
#[kani::stub(axelar_gateway::messaging_interface::xc_AxelarGatewayMessagingClient_validate_message, spec_validate_message)]
#[kani::stub(axelar_gateway::messaging_interface::xc_AxelarGatewayMessagingClient_is_message_approved, spec_is_message_approved)]
#[kani::stub(axelar_gateway::messaging_interface::xc_AxelarGatewayMessagingClient_is_message_executed, spec_is_message_executed)]
fn c16_example_execute_long_payload() {
    let (whole, prefix) = long_payload_pair();
    let approved_whole: bool = kani::any();
    let d = delivery_with(whole.clone(), if approved_whole { whole } else { prefix });
    model::with_contract(&app(), || Example::execute(d.env.clone(), d.chain.clone(), d.id.clone(), d.src.clone(), d.payload.clone()));
    check_effect(&d);
    kani::assert(approved_whole, "VERIF:C16:an approval of a prefix of the payload is not an approval of the payload");
    kani::cover!(true, "VERIF:reach:long delivery executed");
}
