// CHILD-OF: src/contract.rs
// ROBUST: names no storage key/value type of the gas service; state is built by the constructor and observed through public queries, the token ghost and the event log
// ENCODES: AxelarGasService::{__constructor, pay_gas, add_gas, collect_fees, refund, gas_collector}, event::{gas_paid, gas_added, refunded, fee_collected}
// STUBS: soroban_sdk::token::xc_TokenClient_{transfer, balance, allowance, approve, transfer_from, burn} -> TokenSpec (standard token: sender must authorise unless it is the calling contract, amount >= 0, no overdraft, no overflow; ghost balance of the service)
// C14 (balance equation, events), C06 (collector-only outflows), C07 (spender authorises payments).
use super::*;
use soroban_sdk::crypto::ideal_hash;
use soroban_sdk::model::{self, any};
use soroban_sdk::{Address, Bytes, BytesN, Env, IntoVal, Symbol, Val};

pub fn svc() -> Address {
    Address(5)
}
// ---- TokenSpec: one token contract's view of the service's balance, plus a call log
pub static mut T_CALLS: u32 = 0;
pub static mut T_TOKEN: u32 = 0;
pub static mut T_FROM: u32 = 0;
pub static mut T_TO: u32 = 0;
pub static mut T_AMOUNT: i128 = 0;
pub static mut SVC_BAL: i128 = 0;
pub static mut OTHER_BAL: i128 = 0;
pub fn spec_transfer(env: &Env, contract: &Address, from: &Address, to: &Address, amount: &i128) {
    unsafe {
        if *from != env.current_contract_address() {
            from.require_auth();
        }
        if *amount < 0 {
            model::spec_trap();
        }
        let fb = if *from == svc() { SVC_BAL } else { OTHER_BAL };
        if fb < *amount {
            model::spec_trap();
        }
        if *from == svc() {
            SVC_BAL -= *amount;
        }
        if *to == svc() {
            match SVC_BAL.checked_add(*amount) {
                Some(x) => SVC_BAL = x,
                None => model::spec_trap(),
            }
        }
        T_CALLS += 1;
        T_TOKEN = contract.0;
        T_FROM = from.0;
        T_TO = to.0;
        T_AMOUNT = *amount;
    }
}
// the rest of the standard token interface, so that a service that moves funds some other way is judged, not left inconclusive
pub static mut ALLOW: i128 = 0; // the one allowance of the scenario: whatever (from, spender) pair is asked about
pub fn spec_allowance(_env: &Env, _contract: &Address, _from: &Address, _spender: &Address) -> i128 {
    unsafe { ALLOW }
}
pub fn spec_approve(env: &Env, _contract: &Address, from: &Address, _spender: &Address, amount: &i128, _expiration_ledger: &u32) {
    unsafe {
        if *from != env.current_contract_address() {
            from.require_auth();
        }
        if *amount < 0 {
            model::spec_trap();
        }
        ALLOW = *amount;
    }
}
pub fn spec_transfer_from(env: &Env, contract: &Address, spender: &Address, from: &Address, to: &Address, amount: &i128) {
    unsafe {
        // a delegated transfer is authorised by the SPENDER and covered by the allowance; `from` is not asked
        if *spender != env.current_contract_address() {
            spender.require_auth();
        }
        if *amount < 0 || ALLOW < *amount {
            model::spec_trap();
        }
        ALLOW -= *amount;
        let fb = if *from == svc() { SVC_BAL } else { OTHER_BAL };
        if fb < *amount {
            model::spec_trap();
        }
        if *from == svc() {
            SVC_BAL -= *amount;
        }
        if *to == svc() {
            match SVC_BAL.checked_add(*amount) {
                Some(x) => SVC_BAL = x,
                None => model::spec_trap(),
            }
        }
        T_CALLS += 1;
        T_TOKEN = contract.0;
        T_FROM = from.0;
        T_TO = to.0;
        T_AMOUNT = *amount;
    }
}
pub fn spec_burn(env: &Env, _contract: &Address, from: &Address, amount: &i128) {
    unsafe {
        if *from != env.current_contract_address() {
            from.require_auth();
        }
        let fb = if *from == svc() { SVC_BAL } else { OTHER_BAL };
        if *amount < 0 || fb < *amount {
            model::spec_trap();
        }
        if *from == svc() {
            SVC_BAL -= *amount;
        }
        T_CALLS += 1;
        T_TOKEN = 0; // not a transfer: `one_transfer` is false
    }
}
pub fn spec_balance(_env: &Env, contract: &Address, id: &Address) -> i128 {
    unsafe {
        if *id == svc() {
            SVC_BAL
        } else {
            OTHER_BAL
        }
    }
}
pub fn arm() -> i128 {
    unsafe {
        T_CALLS = 0;
        SVC_BAL = kani::any();
        kani::assume(SVC_BAL >= 0);
        OTHER_BAL = kani::any();
        kani::assume(OTHER_BAL >= 0);
        ALLOW = kani::any();
        kani::assume(ALLOW >= 0);
        SVC_BAL
    }
}
pub fn one_transfer(token: &Address, from: &Address, to: &Address, amount: i128) -> bool {
    unsafe { T_CALLS == 1 && T_TOKEN == token.0 && T_FROM == from.0 && T_TO == to.0 && T_AMOUNT == amount }
}
pub fn any_token() -> Token {
    let id: u32 = kani::any();
    kani::assume(id == 6 || id == 7);
    Token { address: Address(id), amount: kani::any() }
}
pub fn setup() -> (Env, Address) {
    let env = Env::default();
    any::auths();
    let collector = any::address(4);
    // state is built by the constructor (no storage key is named: a changed storage layout is judged on behaviour)
    model::with_contract(&svc(), || AxelarGasService::__constructor(env.clone(), any::address(4), collector.clone()));
    (env, collector)
}

// HARNESS props=C14,C07 tier=quick profile=gas shape="pay_gas: payload <=4 bytes, strings <=2, amount full i128, 2 tokens, 4 principals"
#[kani::proof]
#[kani::stub(soroban_sdk::token::xc_TokenClient_transfer, spec_transfer)]
#[kani::stub(soroban_sdk::token::xc_TokenClient_balance, spec_balance)]
#[kani::stub(soroban_sdk::token::xc_TokenClient_allowance, spec_allowance)]
#[kani::stub(soroban_sdk::token::xc_TokenClient_approve, spec_approve)]
#[kani::stub(soroban_sdk::token::xc_TokenClient_transfer_from, spec_transfer_from)]
#[kani::stub(soroban_sdk::token::xc_TokenClient_burn, spec_burn)]
fn c14_pay_gas() {
    let (env, _collector) = setup();
    let b0 = arm();
    let sender = any::address(4);
    let spender = any::address(4);
    let chain = any::string(2);
    let daddr = any::string(2);
    let payload = any::bytes(4);
    let metadata = any::bytes(2);
    let token = any_token();
    let ph = ideal_hash(&payload.0);
    let w0 = model::storage_writes();
    let r = model::with_contract(&svc(), || {
        AxelarGasService::pay_gas(env.clone(), sender.clone(), chain.clone(), daddr.clone(), payload.clone(), spender.clone(), token.clone(), metadata.clone())
    });
    match r {
        Ok(()) => {
            kani::assert(model::auth_of(&spender), "VERIF:C07,C14:gas is paid only with the spender's authorisation");
            kani::assert(token.amount > 0, "VERIF:C14:a payment requires a positive amount");
            kani::assert(one_transfer(&token.address, &spender, &svc(), token.amount), "VERIF:C14:payment moves exactly the amount of the stated token from the spender to the service, once");
            kani::assert(unsafe { SVC_BAL } == b0 + token.amount, "VERIF:C14:service balance grows by exactly the payment");
            kani::assert(model::events_len() == 1 && model::event_contract(0) == svc()
                && model::event_topics(0) == model::topics_of(&(Symbol::new(&env, "gas_paid"), sender.clone(), chain.clone(), daddr.clone(), BytesN::<32>::from_array(&env, &ph), spender.clone(), token.clone()))
                && model::event_data(0) == model::val_of(&(metadata.clone(),)), "VERIF:C14:one gas_paid event with sender, destination, payload hash, spender, token and amount");
            kani::cover!(true, "VERIF:reach:gas paid");
        }
        Err(_) => {
            kani::assert(token.amount <= 0, "VERIF:C14:a positive authorised payment is accepted");
            kani::cover!(true, "VERIF:reach:payment refused");
        }
    }
}

// HARNESS props=C14,C07 tier=quick profile=gas shape="add_gas"
#[kani::proof]
#[kani::stub(soroban_sdk::token::xc_TokenClient_transfer, spec_transfer)]
#[kani::stub(soroban_sdk::token::xc_TokenClient_balance, spec_balance)]
#[kani::stub(soroban_sdk::token::xc_TokenClient_allowance, spec_allowance)]
#[kani::stub(soroban_sdk::token::xc_TokenClient_approve, spec_approve)]
#[kani::stub(soroban_sdk::token::xc_TokenClient_transfer_from, spec_transfer_from)]
#[kani::stub(soroban_sdk::token::xc_TokenClient_burn, spec_burn)]
fn c14_add_gas() {
    let (env, _collector) = setup();
    let b0 = arm();
    let sender = any::address(4);
    let spender = any::address(4);
    let mid = any::string(2);
    let token = any_token();
    let w0 = model::storage_writes();
    let r = model::with_contract(&svc(), || AxelarGasService::add_gas(env.clone(), sender.clone(), mid.clone(), spender.clone(), token.clone()));
    match r {
        Ok(()) => {
            kani::assert(model::auth_of(&spender), "VERIF:C07,C14:gas is topped up only with the spender's authorisation");
            kani::assert(token.amount > 0, "VERIF:C14:a top-up requires a positive amount");
            kani::assert(one_transfer(&token.address, &spender, &svc(), token.amount), "VERIF:C14:top-up moves exactly the amount from the spender to the service, once");
            kani::assert(unsafe { SVC_BAL } == b0 + token.amount, "VERIF:C14:service balance grows by exactly the top-up");
            kani::assert(model::events_len() == 1 && model::event_contract(0) == svc()
                && model::event_topics(0) == model::topics_of(&(Symbol::new(&env, "gas_added"), sender.clone(), mid.clone(), spender.clone(), token.clone()))
                && model::event_data(0) == model::val_of(&()), "VERIF:C14:one gas_added event with the same token and amount");
            kani::cover!(true, "VERIF:reach:gas added");
        }
        Err(_) => {
            kani::assert(token.amount <= 0, "VERIF:C14:a positive authorised top-up is accepted");
            kani::cover!(true, "VERIF:reach:top-up refused");
        }
    }
}

// HARNESS props=C14,C06 tier=quick profile=gas shape="collect_fees: amount vs balance full i128"
#[kani::proof]
#[kani::stub(soroban_sdk::token::xc_TokenClient_transfer, spec_transfer)]
#[kani::stub(soroban_sdk::token::xc_TokenClient_balance, spec_balance)]
#[kani::stub(soroban_sdk::token::xc_TokenClient_allowance, spec_allowance)]
#[kani::stub(soroban_sdk::token::xc_TokenClient_approve, spec_approve)]
#[kani::stub(soroban_sdk::token::xc_TokenClient_transfer_from, spec_transfer_from)]
#[kani::stub(soroban_sdk::token::xc_TokenClient_burn, spec_burn)]
fn c14_collect_fees() {
    let (env, collector) = setup();
    let b0 = arm();
    let receiver = any::address(4);
    let token = any_token();
    let w0 = model::storage_writes();
    let r = model::with_contract(&svc(), || AxelarGasService::collect_fees(env.clone(), receiver.clone(), token.clone()));
    match r {
        Ok(()) => {
            kani::assert(model::auth_of(&collector), "VERIF:C06,C14:only the gas collector can collect fees");
            kani::assert(token.amount > 0 && token.amount <= b0, "VERIF:C14:collection needs a positive amount not exceeding what the service holds");
            kani::assert(one_transfer(&token.address, &svc(), &receiver, token.amount), "VERIF:C14:collection moves exactly the amount from the service to the receiver, once");
            kani::assert(unsafe { SVC_BAL } == b0 - token.amount && unsafe { SVC_BAL } >= 0, "VERIF:C14:service balance shrinks by exactly the collected amount and stays non-negative");
            kani::assert(model::events_len() == 1 && model::event_contract(0) == svc()
                && model::event_topics(0) == model::topics_of(&(Symbol::new(&env, "gas_collected"), collector.clone(), token.clone())), "VERIF:C14:one gas_collected event with the same token and amount");
            kani::cover!(token.amount == b0, "VERIF:reach:collected the exact balance");
        }
        Err(_) => {
            kani::assert(token.amount <= 0 || token.amount > b0, "VERIF:C14:an authorised collection within the balance succeeds");
            kani::cover!(token.amount > b0, "VERIF:reach:collection beyond the balance refused");
        }
    }
}

// HARNESS props=C14,C06 tier=quick profile=gas shape="refund"
#[kani::proof]
#[kani::stub(soroban_sdk::token::xc_TokenClient_transfer, spec_transfer)]
#[kani::stub(soroban_sdk::token::xc_TokenClient_balance, spec_balance)]
#[kani::stub(soroban_sdk::token::xc_TokenClient_allowance, spec_allowance)]
#[kani::stub(soroban_sdk::token::xc_TokenClient_approve, spec_approve)]
#[kani::stub(soroban_sdk::token::xc_TokenClient_transfer_from, spec_transfer_from)]
#[kani::stub(soroban_sdk::token::xc_TokenClient_burn, spec_burn)]
fn c14_refund() {
    let (env, collector) = setup();
    let b0 = arm();
    let receiver = any::address(4);
    let mid = any::string(2);
    let token = any_token();
    let w0 = model::storage_writes();
    model::with_contract(&svc(), || AxelarGasService::refund(env.clone(), mid.clone(), receiver.clone(), token.clone()));
    kani::assert(model::auth_of(&collector), "VERIF:C06,C14:only the gas collector can refund");
    kani::assert(token.amount >= 0 && token.amount <= b0, "VERIF:C14:a refund never exceeds what the service holds");
    kani::assert(one_transfer(&token.address, &svc(), &receiver, token.amount), "VERIF:C14:refund moves exactly the amount from the service to the receiver, once");
    kani::assert(unsafe { SVC_BAL } == b0 - token.amount, "VERIF:C14:service balance shrinks by exactly the refund");
    kani::assert(model::events_len() == 1 && model::event_contract(0) == svc()
        && model::event_topics(0) == model::topics_of(&(Symbol::new(&env, "gas_refunded"), mid.clone(), receiver.clone(), token.clone())), "VERIF:C14:one gas_refunded event with the same token and amount");
    kani::cover!(token.amount == b0 && b0 > 0, "VERIF:reach:refunded the exact balance");
}

// HARNESS props=C14,C06 tier=quick profile=gas mode=strict shape="constructor and gas_collector / owner queries; nothing may trap"
#[kani::proof]
fn c14_constructor() {
    let env = Env::default();
    let owner = any::address(4);
    let collector = any::address(4);
    model::with_contract(&svc(), || AxelarGasService::__constructor(env.clone(), owner.clone(), collector.clone()));
    let (c, o) = model::with_contract(&svc(), || (AxelarGasService::gas_collector(&env), AxelarGasService::owner(&env)));
    kani::assert(c == collector && o == owner, "VERIF:C06:constructor installs exactly the given owner and gas collector");
    kani::cover!(true, "VERIF:reach:constructed");
}
