// CHILD-OF: src/contract.rs
// ROBUST: names no storage key/value type of the token; state is built and observed through public entry points only
// ENCODES: InterchainToken::{__constructor, mint_from, transfer, approve, transfer_from, burn, balance, allowance, is_minter} over a multi-transaction history
// C12 (representation-independent complement of the one-step harnesses in tok.rs)
use super::*;
use soroban_sdk::model::{self, any};
use soroban_sdk::token::Interface as _;
use soroban_sdk::{Address, Env};

fn tok() -> Address {
    Address(7)
}
// HARNESS props=C12 tier=thorough profile=tok_hist shape="history: construct; mint x to A; A approves S for p until ledger e; S moves y from A to B at ledger l; B burns z — all amounts full i128, A,B,S among 3 principals (aliasing allowed)"
#[kani::proof]
fn c12_history_public_api() {
    let env = Env::default();
    let owner = Address(4);
    let md = TokenMetadata { decimal: 7, name: any::string_exact(1), symbol: any::string_exact(1) };
    model::with_contract(&tok(), || InterchainToken::__constructor(env.clone(), owner.clone(), None, any::b32(1), md.clone()));
    let (a, b, s) = (any::address(3), any::address(3), any::address(3));
    let (x, p, y, z): (i128, i128, i128, i128) = (kani::any(), kani::any(), kani::any(), kani::any());
    let (e, l0, l1): (u32, u32, u32) = (kani::any(), kani::any(), kani::any());
    kani::assume(l0 <= l1);
    // tx 1: owner mints x to A
    any::auths();
    let r = model::with_contract(&tok(), || InterchainToken::mint_from(&env, owner.clone(), a.clone(), x));
    kani::assume(r.is_ok());
    kani::assert(x >= 0 && model::auth_of(&owner), "VERIF:C12:minting needs a current minter's authorisation and a non-negative amount");
    // tx 2: A approves S
    any::auths();
    model::set_ledger(0, l0);
    model::with_contract(&tok(), || InterchainToken::approve(env.clone(), a.clone(), s.clone(), p, e));
    kani::assert(p >= 0 && !(p > 0 && e < l0) && model::auth_of(&a), "VERIF:C12,C07:an allowance is granted by the owner, non-negative and not already expired");
    // tx 3: S moves y from A to B at ledger l1
    any::auths();
    model::set_ledger(0, l1);
    model::with_contract(&tok(), || InterchainToken::transfer_from(env.clone(), s.clone(), a.clone(), b.clone(), y));
    kani::assert(model::auth_of(&s) && y >= 0 && y <= x && (y == 0 || (y <= p && e >= l1)), "VERIF:C12,C07:a delegated transfer stays within the balance and the live allowance (usable up to and including its expiration ledger)");
    // tx 4: B burns z
    any::auths();
    model::with_contract(&tok(), || InterchainToken::burn(env.clone(), b.clone(), z));
    let b_before = if a == b { x } else { y };
    kani::assert(model::auth_of(&b) && z >= 0 && z <= b_before, "VERIF:C12:burning stays within the balance and needs the holder's authorisation");
    // observe
    let (ba, bb, al) = model::with_contract(&tok(), || {
        (InterchainToken::balance(env.clone(), a.clone()), InterchainToken::balance(env.clone(), b.clone()), InterchainToken::allowance(env.clone(), a.clone(), s.clone()))
    });
    if a == b {
        kani::assert(ba == x - z, "VERIF:C12:balances follow the history exactly (self-transfer moves nothing)");
    } else {
        kani::assert(ba == x - y && bb == y - z, "VERIF:C12:balances follow the history exactly");
    }
    let want_al = if e >= l1 { if y > 0 { p - y } else { p } } else { 0 };
    kani::assert(al == want_al, "VERIF:C12:the allowance left is the grant minus what was spent, and nothing after its expiration");
    kani::assert(ba >= 0 && bb >= 0 && al >= 0, "VERIF:C12:no balance or allowance is ever negative");
    kani::cover!(a != b && y > 0 && z > 0 && e == l1, "VERIF:reach:full history on the expiration ledger");
    kani::cover!(a == b && y > 0, "VERIF:reach:history with a self transfer");
}

// HARNESS props=C12,C07 tier=quick profile=tok_hist shape="short history: construct; owner mints x to A; A moves y to B; B burns z — amounts full i128, A,B among 3 principals (aliasing allowed); public entry points only"
#[kani::proof]
fn c12_history_short() {
    let env = Env::default();
    let owner = Address(4);
    let md = TokenMetadata { decimal: 7, name: any::string_exact(1), symbol: any::string_exact(1) };
    model::with_contract(&tok(), || InterchainToken::__constructor(env.clone(), owner.clone(), None, any::b32(1), md.clone()));
    let (a, b) = (any::address(3), any::address(3));
    let (x, y, z): (i128, i128, i128) = (kani::any(), kani::any(), kani::any());
    any::auths();
    let r = model::with_contract(&tok(), || InterchainToken::mint_from(&env, owner.clone(), a.clone(), x));
    kani::assume(r.is_ok());
    kani::assert(x >= 0 && model::auth_of(&owner), "VERIF:C12:minting needs a current minter's authorisation and a non-negative amount");
    any::auths();
    model::with_contract(&tok(), || InterchainToken::transfer(env.clone(), a.clone(), b.clone(), y));
    kani::assert(model::auth_of(&a), "VERIF:C07,C12:a transfer needs the sender's authorisation");
    kani::assert(y >= 0 && y <= x, "VERIF:C12:a transfer stays within the sender's balance");
    any::auths();
    model::with_contract(&tok(), || InterchainToken::burn(env.clone(), b.clone(), z));
    let b_before = if a == b { x } else { y };
    kani::assert(model::auth_of(&b), "VERIF:C07,C12:burning needs the holder's authorisation");
    kani::assert(z >= 0 && z <= b_before, "VERIF:C12:burning stays within the balance");
    let (ba, bb) = model::with_contract(&tok(), || (InterchainToken::balance(env.clone(), a.clone()), InterchainToken::balance(env.clone(), b.clone())));
    if a == b {
        kani::assert(ba == x - z, "VERIF:C12:balances follow the history exactly (self-transfer moves nothing)");
    } else {
        kani::assert(ba == x - y && bb == y - z, "VERIF:C12:balances follow the history exactly");
    }
    kani::cover!(a != b && y > 0 && z > 0, "VERIF:reach:mint, transfer, burn");
    kani::cover!(a == b && y > 0, "VERIF:reach:short history with a self transfer");
}
// HARNESS props=C12,C07 tier=quick profile=tok_hist shape="short delegated history: construct; owner mints x to A; A approves S for p until ledger e; S moves y from A to B at ledger l >= the approval's ledger — full i128/u32; public entry points only"
#[kani::proof]
fn c12_history_delegated_short() {
    let env = Env::default();
    let owner = Address(4);
    let md = TokenMetadata { decimal: 7, name: any::string_exact(1), symbol: any::string_exact(1) };
    model::with_contract(&tok(), || InterchainToken::__constructor(env.clone(), owner.clone(), None, any::b32(1), md.clone()));
    let (a, b, s) = (any::address(3), any::address(3), any::address(3));
    let (x, p, y): (i128, i128, i128) = (kani::any(), kani::any(), kani::any());
    let (e, l0, l1): (u32, u32, u32) = (kani::any(), kani::any(), kani::any());
    kani::assume(l0 <= l1);
    model::set_auth(&owner, true);
    let r = model::with_contract(&tok(), || InterchainToken::mint_from(&env, owner.clone(), a.clone(), x));
    kani::assume(r.is_ok());
    any::auths();
    model::set_ledger(0, l0);
    model::with_contract(&tok(), || InterchainToken::approve(env.clone(), a.clone(), s.clone(), p, e));
    kani::assert(model::auth_of(&a), "VERIF:C07,C12:an allowance is granted only by the owner of the funds");
    kani::assert(p >= 0 && !(p > 0 && e < l0), "VERIF:C12:an allowance is non-negative and not already expired");
    any::auths();
    model::set_ledger(0, l1);
    model::with_contract(&tok(), || InterchainToken::transfer_from(env.clone(), s.clone(), a.clone(), b.clone(), y));
    kani::assert(model::auth_of(&s), "VERIF:C07,C12:a delegated transfer needs the spender's authorisation");
    kani::assert(y >= 0 && y <= x && (y == 0 || (y <= p && e >= l1)), "VERIF:C12:a delegated transfer stays within the balance and the live allowance (usable up to and including its expiration ledger)");
    let (ba, bb, al) = model::with_contract(&tok(), || {
        (InterchainToken::balance(env.clone(), a.clone()), InterchainToken::balance(env.clone(), b.clone()), InterchainToken::allowance(env.clone(), a.clone(), s.clone()))
    });
    if a == b {
        kani::assert(ba == x, "VERIF:C12:balances follow the history exactly (self-transfer moves nothing)");
    } else {
        kani::assert(ba == x - y && bb == y, "VERIF:C12:balances follow the history exactly");
    }
    let want_al = if e >= l1 { if y > 0 { p - y } else { p } } else { 0 };
    kani::assert(al == want_al, "VERIF:C12:the allowance left is the grant minus what was spent, and nothing after its expiration");
    kani::cover!(a != b && y > 0 && e == l1, "VERIF:reach:delegated transfer on the expiration ledger");
}
