// CHILD-OF: src/contract.rs
// ROBUST: names no storage key/value type of the token; state is built and observed through public entry points only
// ENCODES: InterchainToken::{__constructor, add_minter, remove_minter, transfer_ownership, is_minter, mint_from, token_id, owner, balance} over a history of role changes
// C06 / C11 / C12: the minter set is exactly what construction and the owners' add/remove calls made it; only its members mint.
use super::*;
use soroban_sdk::model::{self, any};
use soroban_sdk::token::Interface as _;
use soroban_sdk::{Address, Env};

fn tok() -> Address {
    Address(7)
}
const NP: usize = 4;
struct Ghost {
    owner: Address,
    minter: [bool; NP + 1],
}
fn step(env: &Env, g: &mut Ghost) {
    let kind: u8 = kani::any();
    kani::assume(kind < 3);
    let x = any::address(NP as u32);
    if kind == 0 {
        model::with_contract(&tok(), || InterchainToken::add_minter(env, x.clone()));
        kani::assert(model::auth_of(&g.owner), "VERIF:C06:the minter set changes only with the authorisation of the owner of the time");
        g.minter[x.0 as usize] = true;
    } else if kind == 1 {
        model::with_contract(&tok(), || InterchainToken::remove_minter(env, x.clone()));
        kani::assert(model::auth_of(&g.owner), "VERIF:C06:the minter set changes only with the authorisation of the owner of the time");
        g.minter[x.0 as usize] = false;
    } else {
        model::with_contract(&tok(), || InterchainToken::transfer_ownership(env, x.clone()));
        kani::assert(model::auth_of(&g.owner), "VERIF:C06:ownership changes hands only with the current owner's authorisation");
        g.owner = x;
    }
}
fn history(n: usize) {
    let env = Env::default();
    any::auths();
    let owner0 = any::address(NP as u32);
    let has_minter: bool = kani::any();
    let m0 = any::address(NP as u32);
    let id = any::b32(1);
    let md = TokenMetadata { decimal: 7, name: any::string_exact(1), symbol: any::string_exact(1) };
    model::with_contract(&tok(), || InterchainToken::__constructor(env.clone(), owner0.clone(), if has_minter { Some(m0.clone()) } else { None }, id.clone(), md.clone()));
    let mut g = Ghost { owner: owner0.clone(), minter: [false; NP + 1] };
    g.minter[owner0.0 as usize] = true;
    if has_minter {
        g.minter[m0.0 as usize] = true;
    }
    let mut i = 0;
    while i < n {
        step(&env, &mut g);
        i += 1;
    }
    let w = any::address(NP as u32);
    let (is_m, tid, own) = model::with_contract(&tok(), || (InterchainToken::is_minter(&env, w.clone()), InterchainToken::token_id(&env), InterchainToken::owner(&env)));
    kani::assert(is_m == g.minter[w.0 as usize], "VERIF:C06,C11:the minter set is exactly the constructor's (owner and named minter) changed by the owners' add and remove calls — a removed minter is gone, ownership transfer moves no minting right");
    kani::assert(tid == id, "VERIF:C11:the token keeps the id it was constructed with, whoever its minters are");
    kani::assert(own == g.owner, "VERIF:C06:the owner is exactly the last named successor");
    // and a mint attempt by w
    let to = any::address(NP as u32);
    let b0 = model::with_contract(&tok(), || InterchainToken::balance(env.clone(), to.clone()));
    let r = model::with_contract(&tok(), || InterchainToken::mint_from(&env, w.clone(), to.clone(), 5));
    let b1 = model::with_contract(&tok(), || InterchainToken::balance(env.clone(), to.clone()));
    match r {
        Ok(()) => {
            kani::assert(model::auth_of(&w) && g.minter[w.0 as usize], "VERIF:C12,C06:only a current minter, with its own authorisation, mints");
            kani::assert(b0 == 0 && b1 == 5, "VERIF:C12:a mint credits exactly the amount");
            kani::cover!(true, "VERIF:reach:minted after a role history");
        }
        Err(_) => {
            kani::assert(!g.minter[w.0 as usize], "VERIF:C12:a current minter's authorised mint succeeds");
            kani::assert(b1 == b0, "VERIF:C12:a refused mint credits nothing");
            kani::cover!(true, "VERIF:reach:former or never minter refused");
        }
    }
}
// HARNESS props=C06,C11,C12 tier=quick profile=tok_roles shape="constructor (owner, optional minter: any of 4 principals, possibly equal), then ANY 2 transactions over {add_minter, remove_minter, transfer_ownership}, then is_minter / token_id / mint_from for an arbitrary principal"
#[kani::proof]
fn c06_minter_history_2() {
    history(2)
}
// HARNESS props=C06,C11,C12 tier=thorough profile=tok_roles4 shape="constructor, then ANY 4 transactions over {add_minter, remove_minter, transfer_ownership}, then is_minter / token_id / mint_from"
#[kani::proof]
fn c06_minter_history_4() {
    history(4)
}
