// CHILD-OF: src/contract.rs
// ENCODES: InterchainToken::{__constructor, transfer, transfer_from, burn, burn_from, approve, allowance, balance, mint, mint_from, add_minter, remove_minter, is_minter, token_id, set_admin, admin, transfer_ownership, owner, decimals, name, symbol}, read_allowance, write_allowance, spend_allowance, read_balance, receive_balance, spend_balance, validate_amount; axelar_soroban_std::interfaces::{owner, set_owner, transfer_ownership}; soroban_token_sdk events/metadata (real crate)
// C12 (token rules), C06/C07 (who must authorise), C11 (constructor roles).  One step from an
// arbitrary pre-state: three principals' balances, one allowance entry, ledger sequence, owner, minters.
use super::*;
use soroban_sdk::model::{self, any};
use soroban_sdk::token::{Interface as _, StellarAssetInterface as _};
use soroban_sdk::{symbol_short, Address, BytesN, Env, IntoVal, Symbol, Val};

pub fn tok() -> Address {
    Address(7)
}
fn k(d: &DataKey) -> Val {
    d.into_val(&Env)
}
// balances and minting rights are OBSERVED through the public queries (a changed storage layout is then judged on
// behaviour); only the pre-state is SEEDED through the storage keys, and `pre()` checks that what it seeded is
// what the contract reads (otherwise the run is inconclusive, not a violation)
pub fn bal(a: &Address) -> i128 {
    model::with_contract(&tok(), || InterchainToken::balance(Env, a.clone()))
}
pub fn is_minter(a: &Address) -> bool {
    model::with_contract(&tok(), || InterchainToken::is_minter(&Env, a.clone()))
}
pub fn owner_now() -> Option<Address> {
    model::storage_get(&tok(), 0, &model::val_of(&axelar_soroban_std_owner_key())).map(|v| Address(v.w as u32))
}
// the owner key type is private to axelar-soroban-std; its model serialisation is observed through set_owner
fn axelar_soroban_std_owner_key() -> Val {
    unsafe { OWNER_KEY }
}
static mut OWNER_KEY: Val = Val::VOID;

pub struct Pre {
    pub env: Env,
    pub p: [Address; 3],
    pub b: [i128; 3],
    pub owner: Address,
    pub seq: u32,
    pub al_from: Address,
    pub al_spender: Address,
    pub al_present: bool,
    pub al_amount: i128,
    pub al_exp: u32,
}
/// principals 1..=3 with arbitrary non-negative balances (present or absent); owner one of 1..=4;
/// one allowance entry between two arbitrary principals.
pub fn pre() -> Pre {
    let env = Env::default();
    any::auths();
    let p = [Address(1), Address(2), Address(3)];
    let mut b = [0i128; 3];
    let mut i = 0;
    while i < 3 {
        let present: bool = kani::any();
        let v: i128 = kani::any();
        kani::assume(v >= 0);
        b[i] = if present { v } else { 0 };
        model::storage_set_if(present, &tok(), 1, &k(&DataKey::Balance(p[i].clone())), &model::val_of(&v));
        i += 1;
    }
    let owner = any::address(4);
    model::with_contract(&tok(), || interfaces::set_owner(&env, &owner));
    // arbitrary minter set over all principals (the unchanged code only consults it when minting;
    // a changed implementation may consult it anywhere)
    let mut mi = 1;
    let mut seeded_ok = true;
    while mi <= 4 {
        let is_m: bool = kani::any();
        model::storage_set_if(is_m, &tok(), 0, &k(&DataKey::Minter(Address(mi))), &Val::VOID);
        seeded_ok = seeded_ok && is_minter(&Address(mi)) == is_m;
        mi += 1;
    }
    i = 0;
    while i < 3 {
        seeded_ok = seeded_ok && bal(&p[i]) == b[i];
        i += 1;
    }
    kani::assert(seeded_ok, "MODEL:seeded pre-state is not what the contract reads (storage layout differs from the one this harness seeds)");
    let seq: u32 = kani::any();
    model::set_ledger(kani::any(), seq);
    let al_from = any::address(3);
    let al_spender = any::address(3);
    let al_present: bool = kani::any();
    let al_amount: i128 = kani::any();
    kani::assume(al_amount >= 0);
    let al_exp: u32 = kani::any();
    model::storage_set_if(
        al_present,
        &tok(),
        2,
        &k(&DataKey::Allowance(AllowanceDataKey { from: al_from.clone(), spender: al_spender.clone() })),
        &model::val_of(&AllowanceValue { amount: al_amount, expiration_ledger: al_exp }),
    );
    Pre { env, p, b, owner, seq, al_from, al_spender, al_present, al_amount, al_exp }
}
impl Pre {
    fn idx(&self, a: &Address) -> usize {
        (a.0 - 1) as usize
    }
    /// usable allowance of (from, spender) in the pre-state
    fn allowance(&self, from: &Address, spender: &Address) -> i128 {
        if self.al_present && *from == self.al_from && *spender == self.al_spender && self.al_exp >= self.seq {
            self.al_amount
        } else {
            0
        }
    }
    fn stored_allowance(&self, from: &Address, spender: &Address) -> Option<Val> {
        model::storage_get(&tok(), 2, &k(&DataKey::Allowance(AllowanceDataKey { from: from.clone(), spender: spender.clone() })))
    }
    fn others_unchanged(&self, a: &Address, b: &Address) -> bool {
        let mut ok = true;
        let mut i = 0;
        while i < 3 {
            if self.p[i] != *a && self.p[i] != *b && bal(&self.p[i]) != self.b[i] {
                ok = false;
            }
            i += 1;
        }
        ok
    }
    fn one_event(&self, topics: soroban_sdk::Buf, data: Val) -> bool {
        model::events_len() == 1 && model::event_contract(0) == tok() && model::event_topics(0) == topics && model::event_data(0) == data
    }
}

// HARNESS props=C12,C07 tier=quick profile=tok shape="3 principals (aliasing allowed), balances/amount full i128"
#[kani::proof]
fn c12_transfer() {
    let s = pre();
    let from = any::address(3);
    let to = any::address(3);
    let amount: i128 = kani::any();
    model::with_contract(&tok(), || InterchainToken::transfer(s.env.clone(), from.clone(), to.clone(), amount));
    let (bf, bt) = (s.b[s.idx(&from)], s.b[s.idx(&to)]);
    kani::assert(model::auth_of(&from), "VERIF:C07:transfer needs the sender's authorisation");
    kani::assert(amount >= 0, "VERIF:C12:negative amounts are rejected");
    kani::assert(bf >= amount, "VERIF:C12:transfer beyond the balance is rejected");
    if from == to {
        kani::assert(bal(&from) == bf, "VERIF:C12:self-transfer leaves the balance");
    } else {
        kani::assert(bf.checked_sub(amount) == Some(bal(&from)) && bt.checked_add(amount) == Some(bal(&to)), "VERIF:C12:transfer moves exactly the amount between the two balances (never wrapped or clamped)");
    }
    kani::assert(s.others_unchanged(&from, &to), "VERIF:C12:no other balance changes");
    kani::assert(s.one_event(model::topics_of(&(symbol_short!("transfer"), from.clone(), to.clone())), model::val_of(&amount)), "VERIF:C12:one transfer event naming sender, recipient and amount");
    kani::assert(s.stored_allowance(&s.al_from, &s.al_spender).is_some() == s.al_present, "VERIF:C12:plain transfer leaves allowances");
    kani::cover!(from != to && amount > 0, "VERIF:reach:transfer");
    kani::cover!(from == to, "VERIF:reach:self transfer");
}

// HARNESS props=C12,C07 tier=quick profile=tok shape="delegated transfer; allowance present/absent/expired/boundary"
#[kani::proof]
fn c12_transfer_from() {
    let s = pre();
    let spender = any::address(3);
    let from = any::address(3);
    let to = any::address(3);
    let amount: i128 = kani::any();
    model::with_contract(&tok(), || InterchainToken::transfer_from(s.env.clone(), spender.clone(), from.clone(), to.clone(), amount));
    let (bf, bt) = (s.b[s.idx(&from)], s.b[s.idx(&to)]);
    let al = s.allowance(&from, &spender);
    kani::assert(model::auth_of(&spender), "VERIF:C07:delegated transfer needs the spender's authorisation");
    kani::assert(amount >= 0, "VERIF:C12:negative amounts are rejected");
    kani::assert(al >= amount, "VERIF:C12,C07:delegated transfer beyond the live allowance (absent, expired, too small) is rejected");
    kani::assert(bf >= amount, "VERIF:C12:transfer beyond the balance is rejected");
    if from == to {
        kani::assert(bal(&from) == bf, "VERIF:C12:self-transfer leaves the balance");
    } else {
        kani::assert(bf.checked_sub(amount) == Some(bal(&from)) && bt.checked_add(amount) == Some(bal(&to)), "VERIF:C12:transfer moves exactly the amount between the two balances (never wrapped or clamped)");
    }
    kani::assert(s.others_unchanged(&from, &to), "VERIF:C12:no other balance changes");
    if amount > 0 {
        kani::assert(s.stored_allowance(&from, &spender) == Some(model::val_of(&AllowanceValue { amount: al.wrapping_sub(amount), expiration_ledger: s.al_exp })), "VERIF:C12:allowance is reduced by exactly the amount spent, expiration kept");
    }
    kani::assert(s.one_event(model::topics_of(&(symbol_short!("transfer"), from.clone(), to.clone())), model::val_of(&amount)), "VERIF:C12:one transfer event naming owner, recipient and amount");
    kani::cover!(amount > 0 && s.al_exp == s.seq, "VERIF:reach:allowance used on its expiration ledger");
    kani::cover!(amount > 0 && from != to && from != spender, "VERIF:reach:delegated transfer");
}

// HARNESS props=C12,C07 tier=quick profile=tok shape="burn"
#[kani::proof]
fn c12_burn() {
    let s = pre();
    let from = any::address(3);
    let amount: i128 = kani::any();
    model::with_contract(&tok(), || InterchainToken::burn(s.env.clone(), from.clone(), amount));
    let bf = s.b[s.idx(&from)];
    kani::assert(model::auth_of(&from), "VERIF:C07:burn needs the holder's authorisation");
    kani::assert(amount >= 0 && bf >= amount, "VERIF:C12:burn of a negative amount or beyond the balance is rejected");
    kani::assert(bf.checked_sub(amount) == Some(bal(&from)) && s.others_unchanged(&from, &from), "VERIF:C12:burn reduces exactly one balance (and the supply) by the amount");
    kani::assert(s.one_event(model::topics_of(&(symbol_short!("burn"), from.clone())), model::val_of(&amount)), "VERIF:C12:one burn event");
    kani::cover!(amount > 0, "VERIF:reach:burn");
}

// HARNESS props=C12,C07 tier=quick profile=tok shape="delegated burn"
#[kani::proof]
fn c12_burn_from() {
    let s = pre();
    let spender = any::address(3);
    let from = any::address(3);
    let amount: i128 = kani::any();
    model::with_contract(&tok(), || InterchainToken::burn_from(s.env.clone(), spender.clone(), from.clone(), amount));
    let bf = s.b[s.idx(&from)];
    let al = s.allowance(&from, &spender);
    kani::assert(model::auth_of(&spender), "VERIF:C07:delegated burn needs the spender's authorisation");
    kani::assert(amount >= 0 && al >= amount && bf >= amount, "VERIF:C12,C07:delegated burn beyond the holder's live allowance or balance is rejected");
    kani::assert(bf.checked_sub(amount) == Some(bal(&from)) && s.others_unchanged(&from, &from), "VERIF:C12:burn reduces exactly one balance (and the supply) by the amount");
    if amount > 0 {
        kani::assert(s.stored_allowance(&from, &spender) == Some(model::val_of(&AllowanceValue { amount: al.wrapping_sub(amount), expiration_ledger: s.al_exp })), "VERIF:C12:allowance is reduced by exactly the amount burnt");
    }
    kani::assert(s.one_event(model::topics_of(&(symbol_short!("burn"), from.clone())), model::val_of(&amount)), "VERIF:C12:one burn event");
    kani::cover!(amount > 0 && s.al_exp == s.seq, "VERIF:reach:delegated burn on the expiration ledger");
}

// HARNESS props=C12,C07 tier=quick profile=tok shape="approve; expiration before/at/after the current ledger"
#[kani::proof]
fn c12_approve() {
    let s = pre();
    let from = any::address(3);
    let spender = any::address(3);
    let amount: i128 = kani::any();
    let exp: u32 = kani::any();
    model::with_contract(&tok(), || InterchainToken::approve(s.env.clone(), from.clone(), spender.clone(), amount, exp));
    kani::assert(model::auth_of(&from), "VERIF:C07:approve needs the owner's authorisation");
    kani::assert(amount >= 0, "VERIF:C12:negative allowance is rejected");
    kani::assert(!(amount > 0 && exp < s.seq), "VERIF:C12:a positive allowance that is already expired is rejected");
    kani::assert(s.stored_allowance(&from, &spender) == Some(model::val_of(&AllowanceValue { amount, expiration_ledger: exp })), "VERIF:C12:allowance is set to exactly (amount, expiration)");
    kani::assert(s.others_unchanged(&from, &from) && bal(&from) == s.b[s.idx(&from)], "VERIF:C12:approve moves no funds");
    kani::assert(s.one_event(model::topics_of(&(Symbol::new(&s.env, "approve"), from.clone(), spender.clone())), model::val_of(&(amount, exp))), "VERIF:C12:one approve event");
    let q = model::with_contract(&tok(), || InterchainToken::allowance(s.env.clone(), from.clone(), spender.clone()));
    kani::assert(q == if exp >= s.seq { amount } else { 0 }, "VERIF:C12:allowance query reports the live allowance");
    kani::cover!(amount > 0 && exp == s.seq, "VERIF:reach:approved until the current ledger");
}

// HARNESS props=C12 tier=quick profile=tok shape="allowance/balance queries on the arbitrary pre-state"
#[kani::proof]
fn c12_queries() {
    let s = pre();
    let from = any::address(3);
    let spender = any::address(3);
    let w0 = model::storage_writes();
    let q = model::with_contract(&tok(), || InterchainToken::allowance(s.env.clone(), from.clone(), spender.clone()));
    let b = model::with_contract(&tok(), || InterchainToken::balance(s.env.clone(), from.clone()));
    kani::assert(q == s.allowance(&from, &spender), "VERIF:C12:allowance is usable up to and including its expiration ledger and worthless afterwards");
    kani::assert(b == s.b[s.idx(&from)], "VERIF:C12:balance query reports the stored balance");
    kani::assert(q >= 0 && b >= 0, "VERIF:C12:no balance or allowance is ever negative");
    kani::assert(model::storage_writes() == w0 && model::events_len() == 0, "VERIF:C12:queries change nothing");
    kani::cover!(q > 0 && s.al_exp == s.seq, "VERIF:reach:live allowance on its expiration ledger");
    kani::cover!(s.al_present && s.al_amount > 0 && q == 0, "VERIF:reach:expired allowance");
}

// HARNESS props=C12,C07,C06 tier=quick profile=tok shape="mint_from / mint; minter flag symbolic"
#[kani::proof]
fn c12_mint_from() {
    let s = pre();
    let minter = any::address(4);
    let was_minter = is_minter(&minter); // arbitrary: pre() seeds an arbitrary minter set
    let to = any::address(3);
    let amount: i128 = kani::any();
    let via_owner: bool = kani::any();
    if via_owner {
        kani::assume(minter == s.owner);
        model::with_contract(&tok(), || InterchainToken::mint(s.env.clone(), to.clone(), amount));
    } else {
        let r = model::with_contract(&tok(), || InterchainToken::mint_from(&s.env, minter.clone(), to.clone(), amount));
        kani::assume(r.is_ok()); // Err = rejected transaction
    }
    let bt = s.b[s.idx(&to)];
    kani::assert(model::auth_of(&minter), "VERIF:C07,C06,C12:minting needs the minter's own authorisation (for `mint`: the current owner's)");
    kani::assert(was_minter, "VERIF:C12:only current minters can mint");
    kani::assert(amount >= 0, "VERIF:C12:negative amounts are rejected");
    kani::assert(bt.checked_add(amount) == Some(bal(&to)) && s.others_unchanged(&to, &to), "VERIF:C12:mint increases exactly one balance (and the supply) by the amount (never wrapped or clamped)");
    kani::assert(s.one_event(model::topics_of(&(symbol_short!("mint"), minter.clone(), to.clone())), model::val_of(&amount)), "VERIF:C12:one mint event naming minter and recipient");
    kani::cover!(via_owner && amount > 0, "VERIF:reach:owner mint");
    kani::cover!(!via_owner && amount > 0 && minter != s.owner, "VERIF:reach:minter mint");
}

// HARNESS props=C06,C11 tier=quick profile=tok shape="add_minter / remove_minter; witness minter"
#[kani::proof]
fn c06_minter_admin() {
    let s = pre();
    let target = any::address(4);
    let witness = any::address(4);
    let w_was = is_minter(&witness); // arbitrary: pre() seeds an arbitrary minter set
    let add: bool = kani::any();
    model::with_contract(&tok(), || {
        if add {
            InterchainToken::add_minter(&s.env, target.clone())
        } else {
            InterchainToken::remove_minter(&s.env, target.clone())
        }
    });
    kani::assert(model::auth_of(&s.owner), "VERIF:C06:minter changes need the current owner's authorisation");
    kani::assert(is_minter(&target) == add, "VERIF:C06:the named address gains or loses the minting right");
    if witness != target {
        kani::assert(is_minter(&witness) == w_was, "VERIF:C06:other minters are unaffected");
    }
    kani::cover!(add, "VERIF:reach:minter added");
    kani::cover!(!add, "VERIF:reach:minter removed");
}

// HARNESS props=C12,C06 tier=quick profile=tok shape="transfer_ownership and set_admin; new owner any of 4 principals incl. the current one"
#[kani::proof]
fn c12_set_admin() {
    let s = pre();
    let new_owner = any::address(4);
    let via_set_admin: bool = kani::any();
    unsafe {
        // observe the owner key the std crate uses (private type): it is the only instance entry so far
        OWNER_KEY = Val::VOID;
    }
    model::with_contract(&tok(), || {
        if via_set_admin {
            InterchainToken::set_admin(s.env.clone(), new_owner.clone())
        } else {
            InterchainToken::transfer_ownership(&s.env, new_owner.clone())
        }
    });
    kani::assert(model::auth_of(&s.owner), "VERIF:C06:ownership changes hands only with the current owner's authorisation");
    let now = model::with_contract(&tok(), || InterchainToken::owner(&s.env));
    kani::assert(now == new_owner, "VERIF:C06:afterwards the role belongs to exactly the named successor");
    let last = model::events_len();
    kani::assert(last >= 1 && model::event_topics(last - 1) == model::topics_of(&(symbol_short!("set_admin"), s.owner.clone())) && model::event_data(last - 1) == model::val_of(&new_owner), "VERIF:C12:set_admin event names the previous administrator and the new one");
    kani::cover!(new_owner != s.owner, "VERIF:reach:ownership moved to another principal");
}

// HARNESS props=C11,C12 tier=quick profile=tok shape="constructor: owner, optional minter, id, metadata (decimals full u32, strings <=2)"
#[kani::proof]
fn c11_token_constructor() {
    let env = Env::default();
    let owner = any::address(4);
    let has_minter: bool = kani::any();
    let m = any::address(4);
    let minter = if has_minter { Some(m.clone()) } else { None };
    let id = any::b32(2);
    let md = TokenMetadata { decimal: kani::any(), name: any::string(2), symbol: any::string(2) };
    model::with_contract(&tok(), || InterchainToken::__constructor(env.clone(), owner.clone(), minter.clone(), id.clone(), md.clone()));
    kani::assert(md.decimal <= 255 && md.name.len > 0 && md.symbol.len > 0, "VERIF:C11:tokens with unrepresentable metadata cannot be created");
    let (o, tid, dec, nm, sy) = model::with_contract(&tok(), || {
        (InterchainToken::owner(&env), InterchainToken::token_id(&env), InterchainToken::decimals(env.clone()), InterchainToken::name(env.clone()), InterchainToken::symbol(env.clone()))
    });
    kani::assert(o == owner, "VERIF:C11:the constructor's owner owns the token");
    kani::assert(tid == id && dec == md.decimal && nm == md.name && sy == md.symbol, "VERIF:C11:the token reports the id and metadata it was created with");
    let probe = any::address(4);
    kani::assert(is_minter(&probe) == (probe == owner || (has_minter && probe == m)), "VERIF:C11:minting rights go to the owner and the designated minter only");
    kani::assert(bal(&Address(1)) == 0 && bal(&Address(2)) == 0 && bal(&Address(3)) == 0, "VERIF:C11:a new token has no balances");
    kani::cover!(has_minter && m != owner, "VERIF:reach:constructed with a third-party minter");
}

// HARNESS props=C11,C12 tier=quick profile=tok mode=strict shape="constructor with representable metadata and ANY owner / optional minter (equal or not), then every query — nothing may trap: a token that was created answers for its id, owner, metadata and minters"
#[kani::proof]
fn c11_token_constructor_strict() {
    let env = Env::default();
    let owner = any::address(4);
    let has_minter: bool = kani::any();
    let m = any::address(4);
    let minter = if has_minter { Some(m.clone()) } else { None };
    let id = any::b32(2);
    let md = TokenMetadata { decimal: kani::any(), name: any::string(2), symbol: any::string(2) };
    kani::assume(md.decimal <= 255 && md.name.len > 0 && md.symbol.len > 0);
    model::with_contract(&tok(), || InterchainToken::__constructor(env.clone(), owner.clone(), minter.clone(), id.clone(), md.clone()));
    let probe = any::address(4);
    let (o, tid, dec, nm, sy, im, b) = model::with_contract(&tok(), || {
        (
            InterchainToken::owner(&env),
            InterchainToken::token_id(&env),
            InterchainToken::decimals(env.clone()),
            InterchainToken::name(env.clone()),
            InterchainToken::symbol(env.clone()),
            InterchainToken::is_minter(&env, probe.clone()),
            InterchainToken::balance(env.clone(), probe.clone()),
        )
    });
    kani::assert(o == owner && tid == id && dec == md.decimal && nm == md.name && sy == md.symbol, "VERIF:C11:the token reports the owner, id and metadata it was created with");
    kani::assert(im == (probe == owner || (has_minter && probe == m)) && b == 0, "VERIF:C11:minting rights go to the owner and the designated minter only; no balances");
    kani::cover!(has_minter && m == owner, "VERIF:reach:constructed with the owner as designated minter");
    kani::cover!(has_minter && m != owner, "VERIF:reach:constructed with a third-party minter (strict)");
}

// HARNESS props=C12 tier=quick profile=tok mode=strict shape="delegated transfer that the rules allow (live allowance incl. the expiration ledger itself, sufficient balance, no overflow) must succeed without any trap"
#[kani::proof]
fn c12_transfer_from_allowed_strict() {
    let s = pre();
    let spender = any::address(3);
    let from = any::address(3);
    let to = any::address(3);
    let amount: i128 = kani::any();
    model::set_auth(&spender, true);
    let (bf, bt) = (s.b[s.idx(&from)], s.b[s.idx(&to)]);
    kani::assume(amount >= 0 && s.allowance(&from, &spender) >= amount && bf >= amount);
    kani::assume(from == to || bt.checked_add(amount).is_some());
    model::with_contract(&tok(), || InterchainToken::transfer_from(s.env.clone(), spender.clone(), from.clone(), to.clone(), amount));
    kani::assert(true, "VERIF:C12:a delegated transfer within a live allowance (usable up to and including its expiration ledger) and within the balance succeeds");
    kani::cover!(amount > 0 && s.al_exp == s.seq, "VERIF:reach:allowed on the expiration ledger");
}

// HARNESS props=C12 tier=quick profile=tok mode=strict shape="revocation: approve(amount = 0) with any expiration (past, present, future) by the authorised owner must succeed without any trap"
#[kani::proof]
fn c12_revoke_strict() {
    let s = pre();
    let from = any::address(3);
    let spender = any::address(3);
    let exp: u32 = kani::any();
    model::set_auth(&from, true);
    model::with_contract(&tok(), || InterchainToken::approve(s.env.clone(), from.clone(), spender.clone(), 0, exp));
    let q = model::with_contract(&tok(), || InterchainToken::allowance(s.env.clone(), from.clone(), spender.clone()));
    kani::assert(q == 0, "VERIF:C12:an allowance can always be revoked: approving zero succeeds whatever the expiration ledger, and leaves nothing to spend");
    kani::cover!(exp < s.seq, "VERIF:reach:revoked with a past expiration");
}
