#!/usr/bin/env python3
"""Instantiates roles.rs.tmpl for every upgradable production contract."""
import os
here = os.path.dirname(os.path.abspath(__file__))
t = open(os.path.join(here, "roles.rs.tmpl")).read()
OPER = '''
// HARNESS props=C06 tier=quick profile=roles shape="@TYPE@::transfer_operatorship; operator and owner independent principals"
#[kani::proof]
fn c06_transfer_operatorship() {
    use axelar_soroban_std::interfaces::OperatableInterface as _;
    let (env, owner) = base();
    let operator = any::address(4);
    model::with_contract(&me(), || axelar_soroban_std::interfaces::set_operator(&env, &operator));
    let new_operator = any::address(4);
    model::with_contract(&me(), || @TYPE@::transfer_operatorship(&env, new_operator.clone()));
    kani::assert(model::auth_of(&operator), "VERIF:C06:operatorship changes hands only with the current operator's authorisation (the owner's is not enough)");
    let (now, own) = model::with_contract(&me(), || (@TYPE@::operator(&env), @TYPE@::owner(&env)));
    kani::assert(now == new_operator && own == owner, "VERIF:C06:afterwards the operator role belongs to exactly the named successor and the owner is unchanged");
    kani::cover!(operator != owner && !model::auth_of(&owner), "VERIF:reach:operatorship moved without the owner");
}
'''
for crate, ty, oper in [("axelar-gateway", "AxelarGateway", True), ("axelar-gas-service", "AxelarGasService", False),
                        ("axelar-operators", "AxelarOperators", False), ("interchain-token-service", "InterchainTokenService", False),
                        ("interchain-token", "InterchainToken", False)]:
    s = t.replace("@OPERATABLE_HARNESS@", OPER if oper else "")
    s = s.replace("@OPERATABLE_ENC@", ", operator, transfer_operatorship" if oper else "").replace("@OPERATABLE_STD@", ", operator, set_operator, transfer_operatorship" if oper else "")
    s = s.replace("@TYPE@", ty)
    if crate == "interchain-token":
        # the token emits an additional set_admin event on ownership transfer (checked in tok.rs)
        pass
    d = os.path.join(here, "..", crate)
    os.makedirs(d, exist_ok=True)
    open(os.path.join(d, "roles.rs"), "w").write(s)
    print("wrote", crate)
